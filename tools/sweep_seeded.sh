#!/bin/sh
# Runs every seeded change under /verif/seeded against its property's check (default: quick), P at a time.
# usage: sweep_seeded.sh [tier] [parallelism] [name-filter-regex]
tier=${1:-quick}; par=${2:-4}; filt=${3:-.}
one() {
  d=$1; tier=$2
  id=$(basename $d); prop=$(echo $id | cut -d- -f1 | cut -c1-3)
  if grep -q '"stale"' $d/meta.json 2>/dev/null; then echo "$id stale (written against an earlier tree, see meta.json)"; return; fi
  out=$(VSEED_KEEP=1 SEED_LINES=3 /verif/tools/verify_seed.sh $d $id $prop $tier 2>&1)
  suite=$(echo "$out" | grep -c "suite: green"); demo1=$(echo "$out" | grep -c "vseed.*exit 1"); demo0=$(echo "$out" | grep -c "/repo: exit 0")
  det=$(echo "$out" | grep -c "^VIOLATION property=$prop")
  reb=$(echo "$out" | grep -c "patch rebased"); napp=$(echo "$out" | grep -c "PATCH DOES NOT APPLY")
  echo "$id suite_green=$suite demo_fails_with=$demo1 demo_passes_without=$demo0 detected_by_${prop}_${tier}=$det rebased=$reb does_not_apply=$napp"
}
if [ "$1" = "--one" ]; then one "$2" "$3"; exit 0; fi
ls -d /verif/seeded/*/ | grep -E "$filt" | xargs -P $par -I{} sh $0 --one {} $tier
rm -rf /verif/.build/mutant/* 2>/dev/null
