#!/bin/sh
# Runs every seeded change under /verif/seeded against its property's check (default: quick).
tier=${1:-quick}
for d in /verif/seeded/*/; do
  id=$(basename $d); prop=$(echo $id | cut -d- -f1 | cut -c1-3)
  out=$(SEED_LINES=3 /verif/tools/verify_seed.sh $d $id $prop $tier 2>&1)
  suite=$(echo "$out" | grep -c "suite: green"); demo1=$(echo "$out" | grep -c "vseed.*exit 1"); demo0=$(echo "$out" | grep -c "/repo: exit 0")
  det=$(echo "$out" | grep -c "^VIOLATION property=$prop")
  echo "$id suite_green=$suite demo_fails_with=$demo1 demo_passes_without=$demo0 detected_by_${prop}_${tier}=$det"
done
