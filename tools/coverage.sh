#!/bin/sh
# usage: coverage.sh [tier] [IDs...]   measures which goldmark statements the generated tiers execute
# (a measurement, not a registered check): builds each check with -cover -coverpkg=goldmark/..., runs shard 0 of 4,
# merges the profiles and prints the uncovered blocks of the non-test library source.
export GOFLAGS=-mod=mod GOPROXY=off GOSUMDB=off GOTOOLCHAIN=local
tier=${1:-quick}; shift
ids=${@:-01 02 03 04 05 06 08 09 10 11 12 13 14 15 16 17 18 19 20}
out=/tmp/cov; mkdir -p $out/replays
cd /verif/harness || exit 2
for i in $ids; do
  go test -c -vet=off -cover -coverpkg=github.com/yuin/goldmark/... -o $out/c$i.test ./checks/c$i || exit 2
  (cd checks/c$i && VERIF_TIER=$tier VERIF_SEED=1 VERIF_SHARD=0 VERIF_NSHARDS=4 VERIF_OUT=$out/part-$i.json VERIF_DIR=/verif VERIF_BUDGET_S=900 VERIF_REPLAY_DIR=$out/replays \
     $out/c$i.test -test.run '^Test' -test.count=1 -test.timeout 20m -test.coverprofile=$out/c$i.prof > $out/c$i.log 2>&1; echo "C$i exit $?")
  rm -f $out/c$i.test
done
