#!/bin/sh
# usage: mutant.sh <name> (revert <commit> | patch <file> | sed <file> <expr>) -- <ID> <tier> [<ID> <tier>...]
# Creates a scratch worktree of /repo HEAD under /tmp, applies the change, checks
# that it compiles, runs the given checks with VERIF_REPO, removes the worktree.
name=$1; shift
wt=/tmp/wt-$name
git -C /repo worktree remove --force $wt 2>/dev/null
git -C /repo worktree add -q --detach $wt HEAD || exit 2
case $1 in
 revert) (cd $wt && git revert --no-commit $2 >/dev/null) || { echo "revert failed"; }; shift 2;;
 patch) (cd $wt && git apply $2) || { echo "patch failed"; git -C /repo worktree remove --force $wt; exit 2; }; shift 2;;
 sed) (cd $wt && sed -i "$3" $2 && git diff --stat | tail -1); shift 3;;
esac
shift # --
export GOFLAGS=-mod=mod GOPROXY=off GOSUMDB=off GOTOOLCHAIN=local
(cd $wt && go build ./... ) || { echo "MUTANT DOES NOT COMPILE"; git -C /repo worktree remove --force $wt; exit 2; }
if [ -n "$MUTANT_SUITE" ]; then (cd $wt && go test -vet=off -count=1 ./... 2>&1 | grep -v "no test files" | grep -v "^ok" | head -20; echo "suite done"); fi
while [ $# -ge 2 ]; do
  echo "== $name: $1 $2"
  VERIF_REPO=$wt /verif/run.sh $1 $2 2>&1 | cut -c1-300 | head -${MUTANT_LINES:-12}
  shift 2
done
git -C /repo worktree remove --force $wt
rm -f /verif/.build/*-$(printf '%s' "$wt" | python3 -c "
import sys
s=sys.stdin.read(); h=2166136261
for c in s.encode(): h=((h^c)*16777619)&0xffffffff
print('%x'%h)").test /verif/.build/alt-*.mod /verif/.build/alt-*.sum 2>/dev/null
