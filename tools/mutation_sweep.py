#!/usr/bin/env python3
"""Mutation sensitivity sweep (a measurement, not a registered check).

stage1: enumerate single-point mutants of goldmark's non-test sources (tools/mutate), keep those that
        compile and leave the repository's own suite green ("survivors" = changes the suite cannot see).
stage2: run the property checks (quick tier, witnesses hidden, generated search only) against every survivor,
        most relevant check first, stop at the first VIOLATION; survivors no check reports are listed for triage.

Scratch copies live under /tmp/mut (removed by `clean`); results are JSON lines under --out.
usage: mutation_sweep.py stage1 [--workers N] [--limit K] [--seed S] [--files glob,...]
       mutation_sweep.py stage2 [--workers N] [--limit K] [--all-checks]
       mutation_sweep.py report | clean
"""
import argparse, fnmatch, json, os, random, shutil, subprocess, sys, threading, time, queue

ROOT = "/tmp/mut"
VDIR = os.environ.get("VERIF_DIR", "/verif")
ENV = dict(os.environ, GOFLAGS="-mod=mod", GOPROXY="off", GOSUMDB="off", GOTOOLCHAIN="local")
SKIP = ("html5entities", "unicode_case_folding", "util_cjk", "_benchmark", "fuzz/", "_tools", "testutil/", "cmd/")

ORDER = {
    "parser/": ["C02", "C05", "C08", "C09", "C11", "C10", "C01", "C03", "C12", "C15", "C04", "C20", "C06", "C17", "C16"],
    "markdown.go": ["C02", "C06", "C14", "C20", "C01"],
    "renderer/": ["C02", "C03", "C10", "C04", "C14", "C20", "C06", "C12", "C01", "C16", "C17", "C15"],
    "text/": ["C18", "C02", "C08", "C05", "C09", "C12", "C01", "C11", "C17"],
    "util/": ["C19", "C02", "C03", "C04", "C12", "C11", "C15", "C01", "C09", "C10", "C16", "C17"],
    "ast/": ["C13", "C05", "C02", "C06", "C01", "C16", "C17", "C12"],
    "extension/table.go": ["C17", "C11", "C03", "C05", "C10", "C09", "C08", "C01", "C06", "C12"],
    "extension/ast/table.go": ["C17", "C06", "C10", "C03", "C05"],
    "extension/footnote.go": ["C16", "C11", "C05", "C03", "C10", "C01", "C06", "C09", "C12"],
    "extension/ast/footnote.go": ["C16", "C05", "C06"],
    "extension/linkify.go": ["C11", "C04", "C03", "C10", "C05", "C08", "C09", "C01", "C12"],
    "extension/typographer.go": ["C11", "C10", "C03", "C05", "C01", "C08", "C12"],
    "extension/definition_list.go": ["C11", "C05", "C03", "C01", "C10", "C09", "C12"],
    "extension/": ["C11", "C05", "C03", "C01", "C10", "C08", "C09", "C12", "C06"],
}
ALL = ["C%02d" % i for i in range(1, 21)]


def sh(cmd, cwd=None, timeout=None, env=ENV):
    try:
        p = subprocess.run(cmd, cwd=cwd, env=env, stdout=subprocess.PIPE, stderr=subprocess.STDOUT, timeout=timeout)
        return p.returncode, p.stdout.decode("utf-8", "replace")
    except subprocess.TimeoutExpired as e:
        return 124, (e.stdout or b"").decode("utf-8", "replace")


def files():
    rc, out = sh(["git", "-C", "/repo", "ls-files", "*.go"])
    return [f for f in out.split() if not f.endswith("_test.go") and not any(s in f for s in SKIP)]


def list_mutants(sel):
    os.makedirs(ROOT, exist_ok=True)
    rc, out = sh(["go", "build", "-o", ROOT + "/mutate", "."], cwd=VDIR + "/tools/mutate")
    if rc:
        sys.exit(out)
    fs = [f for f in files() if not sel or any(fnmatch.fnmatch(f, g) for g in sel)]
    rc, out = sh([ROOT + "/mutate", "/repo"] + fs)
    muts = [json.loads(l) for l in out.splitlines() if l.startswith("{")]
    for m in muts:
        m["id"] = "%s:%d:%s:%d" % (m["file"], m["line"], m["op"], m["start"]) + (":" + m["repl"] if m["op"] in ("binop", "int+1", "int-1") else "")
    return muts


def worker_dir(i):
    d = "%s/w%d" % (ROOT, i)
    shutil.rmtree(d, ignore_errors=True)
    os.makedirs(d)
    subprocess.check_call("git -C /repo archive HEAD | tar -x -C " + d, shell=True)
    return d


def apply(d, m):
    p = os.path.join(d, m["file"])
    src = open(os.path.join("/repo", m["file"]), "rb").read()
    if src[m["start"]:m["end"]].decode("utf-8", "replace") != m["orig"]:
        return False  # the file changed since stage1 (a fix commit): stale mutant
    open(p, "wb").write(src[:m["start"]] + m["repl"].encode() + src[m["end"]:])
    return True


def revert(d, m):
    shutil.copyfile(os.path.join("/repo", m["file"]), os.path.join(d, m["file"]))


def load(path):
    if not os.path.exists(path):
        return []
    return [json.loads(l) for l in open(path) if l.strip()]


def pool(n, items, fn, outpath):
    q = queue.Queue()
    for it in items:
        q.put(it)
    lock = threading.Lock()
    out = open(outpath, "a")
    done = [0]

    def run(i):
        d = worker_dir(i)
        while True:
            try:
                it = q.get_nowait()
            except queue.Empty:
                return
            r = fn(d, it)
            with lock:
                out.write(json.dumps(r) + "\n")
                out.flush()
                done[0] += 1
                if done[0] % 50 == 0:
                    print(time.strftime("%H:%M:%S"), done[0], "/", len(items), flush=True)

    ts = [threading.Thread(target=run, args=(i,)) for i in range(n)]
    [t.start() for t in ts]
    [t.join() for t in ts]


def stage1(a):
    muts = list_mutants(a.files.split(",") if a.files else None)
    random.Random(a.seed).shuffle(muts)
    seen = {r["id"] for r in load(a.out + "/stage1.jsonl")}
    todo = [m for m in muts if m["id"] not in seen][: a.limit or None]
    print("mutants", len(muts), "already", len(seen), "todo", len(todo), flush=True)
    env = dict(ENV, GOCACHE=ROOT + "/cache")

    def one(d, m):
        if not apply(d, m):
            return dict(m, status="stale")
        try:
            rc, out = sh(["go", "build", "./..."], cwd=d, timeout=120, env=env)
            if rc:
                st = "nocompile"
            else:
                rc, out = sh(["go", "test", "-vet=off", "-count=1", "-timeout", "90s", "./..."], cwd=d, timeout=200, env=env)
                st = "survivor" if rc == 0 else "killed"
        finally:
            revert(d, m)
        return dict(m, status=st)

    pool(a.workers, todo, one, a.out + "/stage1.jsonl")


def order_for(f, allc):
    for k, v in ORDER.items():
        if f == k or (k.endswith("/") and f.startswith(k)):
            return v + ([c for c in ALL if c not in v] if allc else [])
    return ALL


def stage2(a):
    surv = [r for r in load(a.out + "/stage1.jsonl") if r["status"] == "survivor"]
    seen = {r["id"] for r in load(a.out + "/stage2.jsonl")}
    sel = a.files.split(",") if a.files else None
    boring = ("Dump", "String", "Kind", "Text", "IsRaw", "SetTypographerOption", "Set", "SetOption")  # debugging aids, option plumbing
    todo = [m for m in surv if m["id"] not in seen and (not sel or any(fnmatch.fnmatch(m["file"], g) for g in sel))
            and m["func"].split(".")[-1] not in boring and not m["func"].split(".")[-1].startswith("With")]
    random.Random(a.seed).shuffle(todo)
    todo = todo[: a.limit or None]
    print("survivors", len(surv), "already", len(seen), "todo", len(todo), flush=True)
    rc, out = sh(["go", "build", "-o", ROOT + "/verifrun", "./cmd/verifrun"], cwd=VDIR + "/harness")
    if rc:
        sys.exit(out)

    def one(d, m):
        if not apply(d, m):
            return dict(m, detected="stale", tried=[], secs=0)
        tried, det, t0 = [], None, time.time()
        try:
            for c in order_for(m["file"], a.all_checks)[: a.maxchecks or None]:
                if a.skip_race and c == "C07":
                    continue
                env = dict(ENV, VERIF_DIR=VDIR, VERIF_REPO=d, VERIF_NOKNOWN="1", VERIF_SHARDS=str(a.shards), VERIF_SEED=str(a.vseed), VERIF_SCALE_PCT=str(a.scale))
                rc, out = sh([ROOT + "/verifrun", c, "quick"], cwd=VDIR + "/harness", timeout=1500, env=env)
                tried.append([c, rc])
                if rc == 1 and "VIOLATION property=" in out:
                    det = c
                    break
        finally:
            revert(d, m)
            h = None
        return dict(m, detected=det, tried=tried, secs=round(time.time() - t0))

    pool(a.workers, todo, one, a.out + "/stage2.jsonl")


def report(a):
    s1 = load(a.out + "/stage1.jsonl")
    s2 = load(a.out + "/stage2.jsonl")
    from collections import Counter
    print("stage1", Counter(r["status"] for r in s1))
    s2 = [r for r in s2 if r["detected"] != "stale"]
    print("stage2", len(s2), "detected", sum(1 for r in s2 if r["detected"]), "undetected", sum(1 for r in s2 if not r["detected"]))
    print("by check", Counter(r["detected"] for r in s2))
    byf = Counter((r["file"], bool(r["detected"])) for r in s2)
    for f in sorted({r["file"] for r in s2}):
        print("  %-34s detected %4d  undetected %4d" % (f, byf[(f, True)], byf[(f, False)]))
    if a.verbose:
        for r in s2:
            if not r["detected"]:
                print("UNDETECTED", r["id"], "|", r["func"], "|", repr(r["orig"][:60]), "->", repr(r["repl"][:70]))


def clean(a):
    shutil.rmtree(ROOT, ignore_errors=True)
    shutil.rmtree("/verif/.build/mutant", ignore_errors=True)


if __name__ == "__main__":
    ap = argparse.ArgumentParser()
    ap.add_argument("cmd", choices=["stage1", "stage2", "report", "clean"])
    ap.add_argument("--workers", type=int, default=8)
    ap.add_argument("--limit", type=int, default=0)
    ap.add_argument("--seed", type=int, default=1)
    ap.add_argument("--vseed", type=int, default=1)
    ap.add_argument("--shards", type=int, default=2)
    ap.add_argument("--scale", type=int, default=100)
    ap.add_argument("--maxchecks", type=int, default=0)
    ap.add_argument("--files", default="")
    ap.add_argument("--out", default="/tmp/mut/results")
    ap.add_argument("--all-checks", action="store_true")
    ap.add_argument("--skip-race", action="store_true")
    ap.add_argument("--verbose", action="store_true")
    a = ap.parse_args()
    os.makedirs(a.out, exist_ok=True)
    {"stage1": stage1, "stage2": stage2, "report": report, "clean": clean}[a.cmd](a)
