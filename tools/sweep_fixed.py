#!/usr/bin/env python3
"""For every 'fixed' entry of known_findings.json: revert its commit in a scratch worktree and
(1) replay the witness (must be a VIOLATION), (2) run the property's quick tier with the witness
files hidden (VERIF_NOKNOWN=1) to see whether the generated search rediscovers it."""
import json, subprocess, os, sys, collections
K = json.load(open('/verif/known_findings.json'))['findings']
by_commit = collections.defaultdict(list)
for k in K:
    if k['status'] == 'fixed': by_commit[k['commit']].append(k)
only = sys.argv[1:]
env = dict(os.environ)
for commit, entries in by_commit.items():
    if only and commit not in only and not any(e['id'] in only for e in entries): continue
    wt = f'/tmp/wt-rev-{commit}'
    subprocess.run(['git','-C','/repo','worktree','remove','--force',wt],capture_output=True)
    subprocess.run(['git','-C','/repo','worktree','add','-q','--detach',wt,'HEAD'],check=True)
    r = subprocess.run(['git','revert','--no-commit',commit],cwd=wt,capture_output=True,text=True,errors='replace')
    if r.returncode != 0:
        print(f'{commit}: revert conflict, skipped'); subprocess.run(['git','-C','/repo','worktree','remove','--force',wt]); continue
    e2 = dict(env, VERIF_REPO=wt)
    props = sorted(set(e['property'] for e in entries))
    for e in entries:
        out = subprocess.run(['/verif/run.sh','--replay',e['witness']],cwd='/verif',env=e2,capture_output=True,text=True,errors='replace').stdout
        verdict = 'VIOLATION' if 'VIOLATION property=' in out else ('PASS(!)' if 'REPLAY-PASS' in out else 'INCONCLUSIVE')
        print(f"{commit} {e['property']} {e['id']:5s} witness -> {verdict}")
    for p in props:
        e3 = dict(e2, VERIF_NOKNOWN='1')
        res = subprocess.run(['/verif/run.sh',p,'quick'],cwd='/verif',env=e3,capture_output=True,text=True,errors='replace')
        n = res.stdout.count('VIOLATION property=')
        first = [l for l in res.stdout.splitlines() if l.startswith('  ') ][:2]
        print(f"{commit} {p} generated quick tier -> exit {res.returncode}, {n} violation lines", '|', ' '.join(x.strip()[:110] for x in first))
    subprocess.run(['git','-C','/repo','worktree','remove','--force',wt])
    sys.stdout.flush()
