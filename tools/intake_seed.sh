#!/bin/sh
# usage: intake_seed.sh <srcdir> <seed-id> [<ID> <tier>]...   copies an agent's deliverable into seeded/<seed-id>/ and verifies it
src=$1; id=$2; shift 2
dst=/verif/seeded/$id
mkdir -p $dst && cp $src/patch.diff $dst/ && cp $src/NOTES.md $dst/ 2>/dev/null; rm -rf $dst/demo; cp -r $src/demo $dst/demo
/verif/tools/verify_seed.sh $dst $id "$@"
