#!/usr/bin/env python3
"""mkcase.py <PROP> <check> <config> name=python-literal-bytes... [i:name=int] [s:name=str]  -> JSON case on stdout"""
import sys, json, base64, ast
prop, check, cfg = sys.argv[1:4]
c = {"property": prop, "check": check}
if cfg: c["config"] = cfg
for a in sys.argv[4:]:
    k, v = a.split("=", 1)
    if k.startswith("i:"): c.setdefault("ints", {})[k[2:]] = int(v)
    elif k.startswith("s:"): c.setdefault("strs", {})[k[2:]] = v
    else:
        b = ast.literal_eval("b'''" + v + "'''")
        c.setdefault("bytes", {})[k] = base64.b64encode(b).decode()
        c.setdefault("pretty", {})[k] = repr(b)
print(json.dumps(c, indent=1))
