#!/usr/bin/env python3
"""Merges /tmp/cov/*.prof (written by tools/coverage.sh) and lists the statements of goldmark's non-test
source that no generated tier executed. usage: coverage_report.py [--by-check] [--file substr]"""
import glob, sys, collections, os
PFX = "github.com/yuin/goldmark/"
SKIP = ("fuzz/", "_tools", "testutil/", "cmd/", "_benchmark", "html5entities", "unicode_case_folding")
blocks = collections.defaultdict(lambda: [0, 0])  # key -> [stmts, count]
per = collections.defaultdict(dict)
for p in sorted(glob.glob("/tmp/cov/*.prof")):
    name = os.path.basename(p)[:-5]
    for l in open(p):
        if l.startswith("mode:") or not l.startswith(PFX):
            continue
        loc, n, c = l.rsplit(" ", 2)
        f = loc.split(":")[0][len(PFX):]
        if any(s in f for s in SKIP):
            continue
        b = blocks[loc]
        b[0] = int(n); b[1] += int(c)
        per[name][loc] = per[name].get(loc, 0) + int(c)
tot = sum(b[0] for b in blocks.values()); cov = sum(b[0] for b in blocks.values() if b[1])
print("statements %d covered %d (%.1f%%)" % (tot, cov, 100.0 * cov / max(tot, 1)))
if "--by-check" in sys.argv:
    for name, d in sorted(per.items()):
        c = sum(blocks[k][0] for k, v in d.items() if v)
        print("  %s covers %d" % (name, c))
sel = sys.argv[sys.argv.index("--file") + 1] if "--file" in sys.argv else ""
byfile = collections.defaultdict(list)
for loc, (n, c) in blocks.items():
    if c == 0:
        f, r = loc.split(":")
        f = f[len(PFX):]
        s, e = r.split(",")
        byfile[f].append((int(s.split(".")[0]), int(e.split(".")[0]), n))
for f in sorted(byfile):
    if sel and sel not in f:
        continue
    src = open("/repo/" + f, encoding="utf-8", errors="replace").read().split("\n")
    print("== %s: %d uncovered statements" % (f, sum(x[2] for x in byfile[f])))
    for s, e, n in sorted(byfile[f]):
        print("  %d-%d (%d): %s" % (s, e, n, src[s - 1].strip()[:110]))
