// mutate lists single-point source mutations of Go files (byte-range replacements), one JSON object per line.
// usage: mutate <root> <file.go>...
// It is a sensitivity-measurement tool (tools/mutation_sweep.py); it is not part of any registered check.
package main

import (
	"encoding/json"
	"fmt"
	"go/ast"
	"go/parser"
	"go/token"
	"os"
	"path/filepath"
	"strconv"
)

type Mut struct {
	File  string `json:"file"`
	Line  int    `json:"line"`
	Func  string `json:"func"`
	Op    string `json:"op"`
	Start int    `json:"start"`
	End   int    `json:"end"`
	Orig  string `json:"orig"`
	Repl  string `json:"repl"`
}

var swap = map[token.Token][]string{
	token.LSS: {"<="}, token.LEQ: {"<"}, token.GTR: {">="}, token.GEQ: {">"},
	token.EQL: {"!="}, token.NEQ: {"=="}, token.LAND: {"||"}, token.LOR: {"&&"},
	token.ADD: {"-"}, token.SUB: {"+"},
}

func main() {
	root := os.Args[1]
	enc := json.NewEncoder(os.Stdout)
	for _, rel := range os.Args[2:] {
		path := filepath.Join(root, rel)
		src, err := os.ReadFile(path)
		if err != nil {
			fmt.Fprintln(os.Stderr, err)
			os.Exit(2)
		}
		fset := token.NewFileSet()
		f, err := parser.ParseFile(fset, path, src, 0)
		if err != nil {
			fmt.Fprintln(os.Stderr, err)
			os.Exit(2)
		}
		off := func(p token.Pos) int { return fset.Position(p).Offset }
		emit := func(fn, op string, s, e int, repl string) {
			_ = enc.Encode(Mut{File: rel, Line: fset.Position(fset.File(f.Pos()).Pos(s)).Line, Func: fn, Op: op, Start: s, End: e, Orig: string(src[s:e]), Repl: repl})
		}
		for _, d := range f.Decls {
			fd, ok := d.(*ast.FuncDecl)
			if !ok || fd.Body == nil {
				continue
			}
			fn := fd.Name.Name
			if fd.Recv != nil && len(fd.Recv.List) > 0 {
				switch t := fd.Recv.List[0].Type.(type) {
				case *ast.StarExpr:
					if id, ok := t.X.(*ast.Ident); ok {
						fn = id.Name + "." + fn
					}
				case *ast.Ident:
					fn = t.Name + "." + fn
				}
			}
			ast.Inspect(fd.Body, func(n ast.Node) bool {
				switch x := n.(type) {
				case *ast.BinaryExpr:
					for _, r := range swap[x.Op] {
						s := off(x.OpPos)
						emit(fn, "binop", s, s+len(x.Op.String()), r)
					}
				case *ast.BasicLit:
					if x.Kind == token.INT {
						if v, err := strconv.ParseInt(x.Value, 0, 64); err == nil && v >= 0 && v < 1<<20 {
							s, e := off(x.Pos()), off(x.End())
							emit(fn, "int+1", s, e, strconv.FormatInt(v+1, 10))
							if v > 0 {
								emit(fn, "int-1", s, e, strconv.FormatInt(v-1, 10))
							}
						}
					}
				case *ast.Ident:
					if x.Name == "true" {
						emit(fn, "bool", off(x.Pos()), off(x.End()), "false")
					} else if x.Name == "false" {
						emit(fn, "bool", off(x.Pos()), off(x.End()), "true")
					}
				case *ast.IfStmt:
					s, e := off(x.Cond.Pos()), off(x.Cond.End())
					emit(fn, "negif", s, e, "!("+string(src[s:e])+")")
				case *ast.ExprStmt:
					if _, ok := x.X.(*ast.CallExpr); ok {
						emit(fn, "delcall", off(x.Pos()), off(x.End()), "")
					}
				case *ast.AssignStmt:
					if x.Tok != token.DEFINE {
						// only outside for-clause init/post (those positions cannot be empty safely): checked by compile
						emit(fn, "delassign", off(x.Pos()), off(x.End()), "")
					}
				case *ast.IncDecStmt:
					emit(fn, "delincdec", off(x.Pos()), off(x.End()), "")
				case *ast.BranchStmt:
					if x.Tok == token.BREAK || x.Tok == token.CONTINUE {
						emit(fn, "delbranch", off(x.Pos()), off(x.End()), "")
					}
				}
				return true
			})
		}
	}
}
