#!/bin/sh
# usage (from a `vp run` snapshot): tools/bg_all.sh <tier> <seed>...   runs every check in this snapshot, never touching /verif
export VERIF_DIR=$(pwd)
tier=${1:-thorough}; shift
for seed in "$@"; do
  echo "== seed $seed"
  tools/run_all.sh $tier $seed
done
