#!/usr/bin/env python3
"""Regenerates /verif/MANIFEST.json from the table below (and validates it)."""
import json, os, sys

V = "/verif"
LEVELS = {"C14": "fault_enumeration"}

# id -> (technique, level text, level note)
CHECKS = {
 "C01": ("property-based testing (rapid) over token/line soup, repository inputs and mutations, deep nesting x configuration lattice; bounded-exhaustive short strings; native go fuzzing (thorough); oracle: no panic, nil error, Parse+Render == Convert, watchdog with isolated re-run",
         "Generated-input search with an explicit totality oracle: every case must return nil from Convert and from Parse+Render with equal bytes, without panic, and within a watchdog bound that is only reported after an isolated reproduction. Exhaustive for all strings of length <= 3 (quick) / 4 (thorough) over a 23-symbol alphabet x 8 configurations; random and coverage-guided beyond. It cannot establish absence for longer inputs.",
         "Trusted: the harness (kit, generators), Go runtime panic recovery; documents are bounded to 16 KiB; the time bound is wall clock (30 s watchdog, 120 s isolated re-run)."),
 "C05": ("property-based testing (rapid) + bounded-exhaustive short strings + native go fuzzing (thorough); oracle: AST invariant validator applied to every node of every parsed tree",
         "Generated-input search against a validity predicate written from the property statement (child-list consistency, no shared nodes, public kinds in legal places, levels, every segment inside the source, line order, inline text order inside the block's lines). Exhaustive for strings of length <= 3/4 over a 23-symbol alphabet x 4 configurations.",
         "Trusted: the validator (oracle/astcheck.go) and its reading of 'legal places'; documents up to 16 KiB."),
}

NOT_YET = "check not built yet in this session; planned (see DESIGN.md)"

def main():
    checks = []
    for pid in sorted(CHECKS):
        tech, text, note = CHECKS[pid]
        checks.append({
            "property_id": pid,
            "quick_cmd": f"./run.sh {pid} quick",
            "thorough_cmd": f"./run.sh {pid} thorough",
            "evidence_file": f"/verif/evidence/{pid}.json",
            "replay_cmd_template": "./run.sh --replay {path}",
            "engine": "verifrun",
            "level_claimed": {"category": LEVELS.get(pid, "exploration"), "text": text, "design_ref": f"DESIGN.md section 4, {pid}"},
            "level_note": note,
            "technique": tech,
        })
    props = [json.loads(l)["id"] for l in open(f"{V}/properties.jsonl")]
    na = [{"property_id": p, "reason": NOT_YET} for p in props if p not in CHECKS]
    m = {
        "version": 1,
        "setup_cmd": "./run.sh build-all",
        "hooks": {
            "guard": "verif",
            "enable": "no hooks: every observation point is public API; checks build /repo as it is through the harness module's replace directive",
            "baseline_off_cmd": "cd /repo && GOFLAGS=-mod=mod GOPROXY=off GOSUMDB=off GOTOOLCHAIN=local go test -json -vet=off -count=1 -timeout 25m ./...",
            "source_commits": [],
            "add_only": True,
        },
        "engines": [{
            "name": "verifrun",
            "path": "/verif/harness",
            "serves_properties": sorted(CHECKS),
            "kind_free_text": "Go module: rapid v1.3.0 property-based tests, bounded-exhaustive enumerators and native go fuzz targets per property (harness/checks/cNN), shared generators/oracles, and a driver (cmd/verifrun) that builds against /repo's working tree, shards the test binary over the cores, merges evidence and prints VIOLATION / KNOWN-FINDING lines",
        }],
        "checks": checks,
        "notes": "All checks are property-based testing / fuzzing. VERIF_SEED selects the rapid seeds (per shard and per test); quick tiers never use native fuzzing. Known findings: /verif/known_findings.json. Exit 2 = inconclusive (build failure, time-out, harness self-check), never reported as a violation.",
        "not_applicable": na,
    }
    json.dump(m, open(f"{V}/MANIFEST.json", "w"), indent=1)
    try:
        import jsonschema
        jsonschema.validate(m, json.load(open("/root/.vp/MANIFEST.schema.json")))
        print("MANIFEST valid;", len(checks), "checks;", len(na), "not applicable")
    except ImportError:
        print("written (jsonschema not available for validation)")

if __name__ == "__main__":
    main()
