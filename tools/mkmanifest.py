#!/usr/bin/env python3
"""Regenerates /verif/MANIFEST.json from the table below (and validates it)."""
import json, os, sys

V = "/verif"
LEVELS = {"C14": "fault_enumeration"}

# id -> (technique, level text, level note)
CHECKS = {
 "C01": ("property-based testing (rapid) over token/line soup, repository inputs and mutations, deep nesting x configuration lattice; bounded-exhaustive short strings; native go fuzzing (thorough); oracle: no panic, nil error, Parse+Render == Convert, watchdog with isolated re-run, and for deep-nesting documents an allocation bound (a conversion of <= 16 KiB must not allocate more than 1 GiB: running out of memory is a crash)",
         "Generated-input search with an explicit totality oracle: every case must return nil from Convert and from Parse+Render with equal bytes, without panic, and within a watchdog bound that is only reported after an isolated reproduction. Exhaustive for all strings of length <= 3 (quick) / 4 (thorough) over a 23-symbol alphabet x 8 configurations, and for line-structured documents (all pairs of 175 line atoms = indentation x line content, plus all triples over 50 atoms in quick / all 175^3 triples in thorough, x 4 configurations); random and coverage-guided beyond. It cannot establish absence for longer inputs.",
         "Trusted: the harness (kit, generators), Go runtime panic recovery; documents are bounded to 16 KiB; the time bound is wall clock (30 s watchdog, 120 s isolated re-run)."),
 "C05": ("property-based testing (rapid) + bounded-exhaustive short strings + native go fuzzing (thorough); oracle: AST invariant validator applied to every node of every parsed tree",
         "Generated-input search against a validity predicate written from the property statement (child-list consistency, no shared nodes, public kinds in legal places, levels, every segment inside the source, line order, inline text order inside the block's lines; the label position of an AutoLink, a private field, is read by reflection and checked like a Text segment). Exhaustive for strings of length <= 3/4 over a 23-symbol alphabet x 4 configurations and for line-structured documents (pairs/triples of line atoms, as in C01) x 2 configurations. A self-test feeds hand-built malformed trees to the validator.",
         "Trusted: the validator (oracle/astcheck.go) and its reading of 'legal places'; documents up to 16 KiB."),
 "C03": ("property-based testing (rapid) over HTML/attribute-heavy soup and adversarial fragments in every attribute-bearing position x every safe configuration; native go fuzzing (thorough); oracle: strict HTML tokenizer + fixed vocabulary (tags and per-element attribute names as literal tables, goldmark's filter objects are not consulted) + browser tokenizer agreement + strict XML under XHTML; attribute-name tier (edits and position-wise mixes of vocabulary names)",
         "Generated-input search against a validity predicate over the output: a strict tokenizer that accepts only text, quoted-attribute start tags, end tags, void self-closing tags and the placeholder comment; nesting; tag and attribute vocabulary per configuration; agreement with golang.org/x/net/html's lenient tokenizer; encoding/xml strict parse under XHTML. Fixed good/bad vectors self-test the oracle on every run.",
         "Trusted: oracle/html.go, the literal vocabulary table, Go's html/xml packages and x/net/html."),
 "C04": ("property-based testing (rapid) with a URL attack grammar placed in every URL-bearing construct x safe configurations; native go fuzzing (thorough); oracle: every href/src decoded like a browser and normalised per WHATWG preprocessing must not be javascript:/vbscript:/file:/non-image data:",
         "Generated-input search: scheme spellings (case flips, backslash escapes, named/decimal/hex references with leading zeros, percent-encoding, leading/embedded whitespace and controls) in inline/reference links and images, autolinks, nested constructs, containers; a generator-health self-check requires unsafe mode to emit a dangerous URL in >= 15% of attack documents.",
         "Trusted: the browser model (x/net/html attribute decoding + WHATWG preprocessing) in oracle/html.go."),
 "C06": ("property-based testing (rapid), history-as-data state machine: Convert / Parse+Render / re-render kept trees / render trees parsed by another instance / caller-supplied Context on one long-lived instance; oracle: metamorphic - every output equals the canonical output of a brand-new instance; a reflection-based fingerprint of the tree's public surface is compared before and after every Render (rendering does not alter the tree); re-render tiers over every shared document kind and the construct-adjacency enumeration",
         "Generated call histories (2..14 operations over a pool of 2..6 documents, definer/user pairs for references, heading ids, footnotes, quotes, tables, fences, escaped attribute values, multi-line code spans, conversions into failing writers, HTML blocks with closure lines) against a history-independence oracle; every retained tree is fingerprinted (kinds, child counts, attributes, line segments, all exported scalar / segment / byte-slice fields) and must be unchanged by rendering; one-document re-render cases (Parse once, Render three times, one of them by another instance) over soup, line soup, repository inputs, mutations, brackets, footnotes, long, near-limit and pathological documents; in a quarter of the cases all one-shot conversions read their document from one recycled backing array.",
         "Trusted: instances are created fresh per case; canonical output computed by a brand-new instance from a private copy of each document."),
 "C08": ("property-based testing (rapid), metamorphic relation Convert(q^n(D)) == blockquote-wrapped Convert(D) over TAB/CR-free documents x {core,GFM} x {safe,unsafe,xhtml}; exhaustive over the 639 TAB/CR-free spec examples with spec.json as the independent expected side",
         "Metamorphic relation from CommonMark 5.1 checked by byte equality on generated documents (soup, line soup, repository inputs, mutations), n-fold nesting up to 3, plus all spec examples against spec.json.",
         "Trusted: the quoting function q and spec.json."),
 "C09": ("property-based testing (rapid), metamorphic relations: concatenation of a closed document, a heading and any document renders as the concatenation; moving a block of reference definitions from top to bottom changes nothing",
         "Generated pairs with A closed by construction (never by asking goldmark) and documents with spliced references to fresh labels in case/whitespace variants; byte equality. Bounded-exhaustive: every ordered pair of ~70 closed block constructs as (A, B) under every configuration; pathological repeated-unit paragraphs (after cmark's pathological tests) among the closed blocks.",
         "Trusted: the syntactic closedness construction in gen/closed.go; 'no link reference syntax' enforced as 'no [ byte'."),
 "C10": ("property-based testing (rapid), two-pointer aligners over the 8 outputs of the {XHTML, HardWraps, Unsafe} cube (12 edges) admitting only the licensed edit per option; soft-break count and raw-HTML chunks taken from the AST",
         "Generated documents x extension sets (table alignment pinned, East-Asian line-break suppression off); each edge of the option cube is checked with an aligner that accepts only ' />' on void tags, '<br>' before LF (count = rendered soft breaks), placeholder<->raw bytes and empty<->dangerous URL.",
         "Trusted: the aligners in checks/c10 and the harness's own dangerous-URL classification."),
 "C11": ("property-based testing (rapid), metamorphic relation Convert_X(d) == Convert_{X+E}(d) for documents free of E's trigger set by construction, for each of 8 extensions and random base configurations; GFM vs its four members on unrestricted documents",
         "Generated trigger-free documents (profiles remove the trigger bytes/substrings by construction) x base configurations; byte equality. Known finding F17 (CSS3Draft style and ASCII punctuation) is excluded by a cause signature.",
         "Trusted: the trigger sets as listed in the property; base configurations never use the CSS3Draft style (F17)."),
 "C12": ("property-based testing (rapid) + native go fuzzing (thorough) with the source in read-only mmap pages (read-only spare capacity) under debug.SetPanicOnFault, plus canary bytes on ordinary memory; all exported util transformers on read-only inputs",
         "Generated documents/configurations converted from PROT_READ memory: any store or append into the source faults and is reported; canaries around an ordinary copy are compared; a self-test proves the detector fires.",
         "Trusted: linux mmap/mprotect, Go's SetPanicOnFault; only Convert/Parse/Render/Lines.Value/Text and the listed util functions are exercised."),
 "C13": ("property-based testing (rapid) of operation sequences as data + bounded-exhaustive enumeration (all sequences of length <= 2 quick / <= 3 thorough over a pool of 4 nodes x 4 initial forests) against a list-of-children reference model (nil, child and foreign references for InsertBefore, InsertAfter and ReplaceChild); walker status scripts against a reference recursion",
         "Model-based testing of the mutation API with the model enforcing the documented preconditions; exhaustive for short sequences.",
         "Trusted: the model in checks/c13; SortChildren judged by a validity predicate; nil reference only for InsertBefore."),
 "C14": ("fault injection: for generated documents every byte offset k (outputs <= 600 bytes) or a dense grid around multiples of 4096 (5-40 KiB outputs) at which the writer starts failing, x writer kinds (plain io.Writer, io.Writer with WriteByte/WriteString/WriteRune, the caller's own unbuffered util.BufWriter implementation without sticky error, caller bufio 16/4096/65536) x API (Convert, Parse+Render) x fault modes x identity of the injected error (private sentinel, io.ErrShortWrite plain and wrapped, io.EOF, io.ErrUnexpectedEOF, io.ErrClosedPipe, a Temporary/Timeout error); oracle: error identity (errors.Is), prefix property, no panic, termination (a fault run that hangs, reproduced in isolation, is a violation), a healthy conversion afterwards agrees with a fresh instance",
         "Enumeration of fault offsets per generated document: exhaustive for small outputs, boundary-dense for large ones.",
         "Trusted: the fault-injecting writer; the injected error is a sentinel compared with errors.Is."),
 "C15": ("property-based testing (rapid) with a heading grammar (repeated/empty/punctuation-only/non-ASCII/suffix-colliding texts, ATX and Setext, containers) x configurations with AutoHeadingID x conversion history on one instance; oracle over the tokenised output: one non-empty id per heading, pairwise distinct, equal to a fresh instance's ids",
         "Generated heading multisets and histories against a validity predicate over the output plus a history-independence relation.",
         "Trusted: strict HTML tokenizer (safe mode); Attribute option off as the property demands."),
 "C16": ("property-based testing (rapid) with a footnote grammar; oracle over the tokenised output: item numbering, reference->item links and numbers, back-link->reference bijection, distinct ids, never-referenced definitions invisible",
         "Generated documents mixing definitions/references in any order, multiplicity and position. Known findings F10a/F10b (references counted though never rendered) are excluded by cause signatures computed on the AST; everything else must hold.",
         "Trusted: strict HTML tokenizer; id scheme '<prefix>fn:N' / '<prefix>fnrefK:N' as rendered by the extension."),
 "C17": ("property-based testing (rapid) with a table row model (expected shape known by construction) and pipe/dash/colon soup; oracle: one thead/tr, n th, every body row n td, tbody iff rows, per-column alignment, mismatched header => no table; AST side: rows of len(Alignments) cells",
         "Generated row models serialised with optional outer pipes, escaped pipes, containers; and structural rectangularity on soup.",
         "Trusted: the row model; a blank first / last cell is always written with its outer pipe (then it is a cell between two pipes like any other); cells ending in a backslash before a pipe are avoided."),
 "C18": ("property-based testing (rapid) of call sequences as data on Reader and BlockReader + bounded-exhaustive enumeration (all sources of length <= 3 quick / <= 4 thorough over 7 symbols x all sequences of length <= 3 over 8 core calls x 3 reader shapes) against a flat cursor model (Value compared for whole lines and for every range inside one line, padded or not; segments returned by FindClosure must lie inside the source and end at the closer; a reproduced non-termination is a violation); Segment arithmetic as pure functions",
         "Model-based testing against a cursor model (line, start, remaining padding).",
         "Trusted: the cursor model; LineOffset measured from the reader's own line head; BlockReader.Value compared for whole-line segments and unpadded ranges only."),
 "C19": ("property-based testing (rapid) of algebraic laws + bounded-exhaustive strings (length <= 4 quick / <= 5 thorough over 14 symbols) + all code points for per-rune laws; references built by construction; every one of the 2125 HTML5 entity names against an independent copy of the WHATWG list (Go's html package as second opinion); BytesFilter programs with keys colliding in a bucket and keys colliding in the full 64-bit hash against Go maps; URLEscape laws other than ASCII-purity are checked for every byte string, valid UTF-8 or not",
         "Laws (no forbidden bytes, round trips through html.UnescapeString, idempotence, preservation of %XX, UTF-8 validity, label equivalence under whitespace/SimpleFold) over generated and exhaustively enumerated inputs.",
         "Trusted: the WHATWG entity list as shipped with Python (oracle/entities_data.go), Go's html and unicode packages (pinned toolchain, Unicode 15.0)."),
 "C20": ("property-based testing (rapid) with probe block/inline parsers, paragraph/AST transformers and node renderers of generated priorities, behaviours and registration channels/orders; oracle: priority-sorted reference dispatch (log and output) and equality with the canonical sorted registration; trees with kinds nobody renders / created after renderer initialisation",
         "Generated registrations against a reference dispatcher written from the documented priority rules; a self-test pins the assumptions about built-in priorities.",
         "Trusted: the reference dispatcher in checks/c20; built-in priorities as documented."),
 "C02": ("property-based testing (rapid): constructed-document model with reference renderer and spelling-choosing serialiser; exhaustive enumeration of the 652 spec examples x licensed rewrites against spec.json; delimiter soup against a reference implementation of the spec's delimiter-run algorithm (validated on 103 spec examples at start-up), on one line and over several lines inside containers spelled with every equivalent prefix; generated HTML-block start-line look-alikes against a reference reading of the seven start conditions; generated inline-link tails against a reference reading of destination / title syntax; generated single lines against a reference classifier of block starts and paragraph interruption; generated definition look-alikes against a reference reading of link reference definitions",
         "Three independent oracles, none of which asks goldmark: spec.json's expected HTML for rewritten examples (exhaustive), HTML known by construction for generated document models under any choice of equivalent spellings, and a reference emphasis algorithm for delimiter soup. Comparison modulo whitespace next to block tags (the slack of the spec's own comparison). The serialiser also emits near-miss spellings with an equally fixed meaning (continuation lines indented >= 5 columns that look like block starts, title-like lines followed by text after a definition, a literal backslash before a two-space hard break, labels spread over two lines; link look-alikes - an unescaped '<' or a glued title behind a <...> destination, an unbalanced '(', a space before '(', text after the title; definition look-alikes; '<?>'; '</ div>'; character references one digit over the limits). Constructs and spellings added from independent audits: empty list items, items that begin with indented code, quotes ending in a marker-only line, multi-line definition titles with indented continuation lines, line endings in code spans, autolinks and code spans in image descriptions, inline raw HTML over several lines, labels of 999 one-/two-/three-byte characters, HTML block start condition 7 with tabs, structural indentation spelled as spaces followed by a tab.",
         "Trusted: the document model, reference renderer and serialiser (checks/c02/model,gen,ser), the reference emphasis algorithm (self-tested against spec.json), spec.json itself. The serialiser only emits spellings whose meaning is fixed by construction."),
 "C07": ("generated concurrent workloads (rapid) on fresh shared instances under the Go race detector (-race, GORACE=halt_on_error) with GOMAXPROCS variation and injected runtime.Gosched yields; per-goroutine output equality with the sequential output; fresh-process first-use cases by re-executing the test binary",
         "Generated workloads (2..16 goroutines x 1..6 actions over a document pool covering every node kind) explored under the race detector, which reports unsynchronised conflicting accesses on executed paths irrespective of timing; any report halts the shard and the running workload is the replay.",
         "Trusted: the Go race detector; harness-owned probes are internally synchronised. A logical race that is fully mutex-protected yet order-dependent would only show as an output mismatch."),
}

NOT_YET = "check not built yet in this session; planned (see DESIGN.md)"

def main():
    checks = []
    for pid in sorted(CHECKS):
        tech, text, note = CHECKS[pid]
        checks.append({
            "property_id": pid,
            "quick_cmd": f"./run.sh {pid} quick",
            "thorough_cmd": f"./run.sh {pid} thorough",
            "evidence_file": f"/verif/evidence/{pid}.json",
            "replay_cmd_template": "./run.sh --replay {path}",
            "engine": "verifrun",
            "level_claimed": {"category": LEVELS.get(pid, "exploration"), "text": text, "design_ref": f"DESIGN.md section 4, {pid}"},
            "level_note": note,
            "technique": tech,
        })
    props = [json.loads(l)["id"] for l in open(f"{V}/properties.jsonl")]
    na = [{"property_id": p, "reason": NOT_YET} for p in props if p not in CHECKS]
    m = {
        "version": 1,
        "setup_cmd": "./run.sh build-all",
        "hooks": {
            "guard": "verif",
            "enable": "no hooks: every observation point is public API; checks build /repo as it is through the harness module's replace directive",
            "baseline_off_cmd": "cd /repo && GOFLAGS=-mod=mod GOPROXY=off GOSUMDB=off GOTOOLCHAIN=local go test -json -vet=off -count=1 -timeout 25m ./...",
            "source_commits": [],
            "add_only": True,
        },
        "engines": [{
            "name": "verifrun",
            "path": "/verif/harness",
            "serves_properties": sorted(CHECKS),
            "kind_free_text": "Go module: rapid v1.3.0 property-based tests, bounded-exhaustive enumerators and native go fuzz targets per property (harness/checks/cNN), shared generators/oracles, and a driver (cmd/verifrun) that builds against /repo's working tree, shards the test binary over the cores, merges evidence and prints VIOLATION / KNOWN-FINDING lines",
        }],
        "checks": checks,
        "notes": "All checks are property-based testing / fuzzing. VERIF_SEED selects the rapid seeds (per shard and per test); quick tiers never use native fuzzing. Known findings: /verif/known_findings.json. Exit 2 = inconclusive (build failure, time-out, harness self-check), never reported as a violation.",
        "not_applicable": na,
    }
    json.dump(m, open(f"{V}/MANIFEST.json", "w"), indent=1)
    try:
        import jsonschema
        jsonschema.validate(m, json.load(open("/root/.vp/MANIFEST.schema.json")))
        print("MANIFEST valid;", len(checks), "checks;", len(na), "not applicable")
    except ImportError:
        print("written (jsonschema not available for validation)")

if __name__ == "__main__":
    main()
