#!/usr/bin/env python3
"""Regenerates /verif/known_findings.json from the table below (committed; never written at run time)."""
import json, os, subprocess
LOG = subprocess.run(["git","-C","/repo","log","--format=%h %s"],capture_output=True,text=True).stdout.splitlines()
def commit(key):
    m=[l.split()[0] for l in LOG if key in l and " fix:" in " "+l]
    assert len(m)==1,(key,m)
    return m[0]
F = [
 # property, id, status, commit, witness, what
 ("C01","F1","fixed",commit("ToRune"),"known/C01/F1-toRune.json","util.ToRune walked to index -1 on input made of UTF-8 continuation bytes (CJK line-break logic): panic"),
 ("C03","F3","fixed",commit("alt attribute"),"known/C03/F3-img-alt-br.json","<br> tag written inside the alt attribute of an image for a hard line break (not well-formed XML under XHTML)"),
 ("C03","F3b","fixed",commit("alt attribute"),"known/C03/F3-img-alt-br-hardwraps.json","<br> tag written inside the alt attribute for a soft break under WithHardWraps"),
 ("C05","F5","fixed",commit("InsertBefore"),"known/C05/F5-table-childcount.json","InsertBefore double-counted children: ChildCount of a table's parent exceeded the linked children"),
 ("C05","F5b","fixed",commit("InsertBefore"),"known/C05/F5-setext-in-list.json","InsertBefore double-counted children (setext heading replacing a paragraph inside a list item)"),
 ("C04","F4","fixed",commit("IsDangerousURL"),"known/C04/F4-autolink.json","<javascript:...> autolink rendered with a live href in safe mode (IsDangerousURL not applied to autolinks)"),
 ("C04","F4b","fixed",commit("IsDangerousURL"),"known/C04/F4-named-ref.json","[a](javascript&colon;x): IsDangerousURL applied before character references were resolved"),
 ("C04","F4c","fixed",commit("IsDangerousURL"),"known/C04/F4-numeric-ref.json","[a](&#106;avascript:x): IsDangerousURL applied before numeric references were resolved"),
 ("C04","F4d","fixed",commit("IsDangerousURL"),"known/C04/F4-backslash.json","[a](javascript\\:x): IsDangerousURL applied before backslash escapes were resolved"),
 ("C04","F4e","fixed",commit("IsDangerousURL"),"known/C04/F4-ref-image.json","reference image whose definition spells javascript&colon;"),
 ("C11","F8","fixed",commit("trailing spaces"),"known/C11/F8-linkify-heading.json","Linkify changed '### bar    ###' (trailing spaces kept because text is flushed at every space)"),
 ("C11","F8b","fixed",commit("trailing spaces"),"known/C11/F8-linkify-trailing.json","Linkify changed 'foo    ' newline 'bar' (trailing spaces of the line not trimmed)"),
 ("C11","F8c","fixed",commit("trailing spaces"),"known/C11/F8-linkify-cjk.json","Linkify under CJK kept a soft break between wide characters when the line ends in a space (break flag on an empty text node)"),
 ("C11","F9","fixed",commit("East Asian"),"known/C11/F9-cjk-break-before-emphasis.json","CJK dropped the soft line break before a non-text node ('foo' newline '*bar*' rendered foo<em>bar</em>)"),
 ("C11","F17","known","","known/C11/F17-css3draft-ascii-punct.json","CJK with the EastAsianLineBreaksCSS3Draft style removes a soft line break next to any punctuation character, ASCII included ('a:' newline 'b' renders as 'a:b' for pure-ASCII input); the style's own tests pin the either-side reading of its rule, so it is recorded, not repaired; the default extension.CJK (Simple style) must hold without exception"),
]
EXTRA = os.path.join(os.path.dirname(__file__), "known_extra.json")
out = []
for p, i, st, commit, w, what in F:
    e = {"property": p, "id": i, "status": st, "witness": w, "what": what}
    if commit: e["commit"] = commit
    e["line"] = (f"fixed: property={p} {commit} {what}" if st == "fixed" else f"known: property={p} {what}")
    assert os.path.exists("/verif/" + w), w
    out.append(e)
json.dump({"comment": "Known findings of /verif checks. status=known: the witness still fails, the check prints KNOWN-FINDING and excludes failures carrying the same cause signature; status=fixed: repaired by the named 'fix:' commit in /repo, suppresses nothing (the witness is an ordinary regression input).", "findings": out}, open("/verif/known_findings.json", "w"), indent=1)
print(len(out), "entries")
