#!/usr/bin/env python3
"""Regenerates /verif/known_findings.json from the table below (committed; never written at run time)."""
import json, os, subprocess
LOG = subprocess.run(["git","-C","/repo","log","--format=%h %s"],capture_output=True,text=True).stdout.splitlines()
def commit(key):
    m=[l.split()[0] for l in LOG if key in l and " fix:" in " "+l]
    assert len(m)==1,(key,m)
    return m[0]
F = [
 # property, id, status, commit, witness, what
 ("C01","F1","fixed",commit("ToRune"),"known/C01/F1-toRune.json","util.ToRune walked to index -1 on input made of UTF-8 continuation bytes (CJK line-break logic): panic"),
 ("C03","F3","fixed",commit("alt attribute"),"known/C03/F3-img-alt-br.json","<br> tag written inside the alt attribute of an image for a hard line break (not well-formed XML under XHTML)"),
 ("C03","F3b","fixed",commit("alt attribute"),"known/C03/F3-img-alt-br-hardwraps.json","<br> tag written inside the alt attribute for a soft break under WithHardWraps"),
 ("C05","F5","fixed",commit("InsertBefore"),"known/C05/F5-table-childcount.json","InsertBefore double-counted children: ChildCount of a table's parent exceeded the linked children"),
 ("C04","F4","fixed",commit("IsDangerousURL"),"known/C04/F4-autolink.json","<javascript:...> autolink rendered with a live href in safe mode (IsDangerousURL not applied to autolinks)"),
 ("C04","F4b","fixed",commit("IsDangerousURL"),"known/C04/F4-named-ref.json","[a](javascript&colon;x): IsDangerousURL applied before character references were resolved"),
 ("C04","F4c","fixed",commit("IsDangerousURL"),"known/C04/F4-numeric-ref.json","[a](&#106;avascript:x): IsDangerousURL applied before numeric references were resolved"),
 ("C04","F4d","fixed",commit("IsDangerousURL"),"known/C04/F4-backslash.json","[a](javascript\\:x): IsDangerousURL applied before backslash escapes were resolved"),
 ("C04","F4e","fixed",commit("IsDangerousURL"),"known/C04/F4-ref-image.json","reference image whose definition spells javascript&colon;"),
 ("C11","F8","fixed",commit("trailing spaces"),"known/C11/F8-linkify-heading.json","Linkify changed '### bar    ###' (trailing spaces kept because text is flushed at every space)"),
 ("C11","F8b","fixed",commit("trailing spaces"),"known/C11/F8-linkify-trailing.json","Linkify changed 'foo    ' newline 'bar' (trailing spaces of the line not trimmed)"),
 ("C11","F8c","fixed",commit("trailing spaces"),"known/C11/F8-linkify-cjk.json","Linkify under CJK kept a soft break between wide characters when the line ends in a space (break flag on an empty text node)"),
 ("C11","F9","fixed",commit("East Asian"),"known/C11/F9-cjk-break-before-emphasis.json","CJK dropped the soft line break before a non-text node ('foo' newline '*bar*' rendered foo<em>bar</em>)"),
 ("C11","F17","known","","known/C11/F17-css3draft-ascii-punct.json","CJK with the EastAsianLineBreaksCSS3Draft style removes a soft line break next to any punctuation character, ASCII included ('a:' newline 'b' renders as 'a:b' for pure-ASCII input); the style's own tests pin the either-side reading of its rule, so it is recorded, not repaired; the default extension.CJK (Simple style) must hold without exception"),
 ("C16","F10a","known","","known/C16/F10a-reference-in-image-alt.json","a footnote reference that sits in image alt text is counted although it is never rendered: the item gets a back-link to a reference id that does not exist (repair needs re-counting after tree surgery and renumbering; recorded, not repaired)"),
 ("C16","F10b","known","","known/C16/F10b-reference-in-removed-footnote.json","a footnote reference inside the body of a footnote that is removed as unreferenced is still counted: the referenced item gets a dangling back-link (same root cause as F10a: references counted at parse time, never re-counted)"),
 ("C08","F7","fixed",commit("HTML block types"),"known/C08/F7-html-block-closing-line.json","HTML block types 2-5: Continue advanced past the closing line's newline, so the next line's block-quote marker was swallowed"),
 ("C10","F3","fixed",commit("alt attribute"),"known/C10/F3-img-alt-br.json","<br> inside img alt breaks the XHTML rewrite relation (only ' />' on void elements may differ)"),
 ("C13","F5","fixed",commit("InsertBefore"),"known/C13/F5-insertbefore-nil.json","InsertBefore with a nil reference counted the child twice"),
 ("C13","F5b","fixed",commit("InsertBefore"),"known/C13/F5-insertbefore-foreign.json","InsertBefore relative to a foreign node detached the insertee without inserting it"),
 ("C13","F21","fixed",commit("InsertAfter corrupts"),"known/C13/F21-insertafter-next-sibling.json","InsertAfter(p, ref, c) with c already the next sibling of ref linked c to itself (cycle in the sibling chain)"),
 ("C13","F33","fixed",commit("nil reference node"),"known/C13/F33-insertafter-nil.json","InsertAfter(p, nil, c) panicked (method call on the nil reference) although a reference that is not a child means append; reported as a by-product by a round-6 seeding sub-agent, then generated by the check once nil references were drawn for all three insertion calls"),
 ("C13","F33b","fixed",commit("nil reference node"),"known/C13/F33-replacechild-nil.json","ReplaceChild(p, nil, c) appended c and then panicked in RemoveChild(nil)"),
 ("C09","F34","fixed",commit("rendered without a trailing newline"),"known/C09/F34-html-block-at-eof-no-newline.json","with WithUnsafe, an HTML block whose last line ends the input without a line ending ('<!-- x -->', '<?php x ?>', '<script>x</script>') was rendered without a trailing newline, so rendering A alone differed from its part of the rendering of A, blank line, heading, blank line, B; reported as a by-product by two round-6 seeding sub-agents (C09, C10), then generated by the check once closed documents may end without a final line ending"),
 ("C02","F35","fixed",commit("sees the container marker"),"known/C02/F35-flanking-after-bare-quote-marker.json","'>*a' LF '>*)': BlockReader.PrecendingCharacter returned the byte physically in front of a continuation line (the bare '>' marker, punctuation), so a delimiter run at the beginning of that line counted as right-flanking and closed emphasis; with the equivalent spelling '> ' it did not (reported as a by-product by a round-6 seeding sub-agent; rediscovered by the multi-line emphasis tier added for it)"),
 ("C02","F36","fixed",commit("less indentation than its fence"),"known/C02/F36-short-blank-line-in-indented-fence.json","a fenced code block indented N columns kept the spaces of a whitespace-only content line shorter than N ('  ~~~' LF ' ' LF '  ~~~' rendered a line holding one space): up to N columns of indentation are removed from every content line (by-product of a round-6 seeding sub-agent; rediscovered once the serialiser spells empty content lines with fewer spaces than the fence indent)"),
 ("C02","F37","fixed",commit("tabs counted as 4 columns wherever they start"),"known/C02/F37-tab-blank-line-in-indented-code.json","an empty line of an indented code block spelled SPACE TAB (exactly four columns) kept one space: Segment.TrimLeftSpaceWidth counted a tab as four columns regardless of the column it starts at (by-product of a round-6 seeding sub-agent; rediscovered once the serialiser spells empty code lines with tabs)"),
 ("C17","F22","fixed",commit("table header"),"known/C17/F22-short-header.json","a header row with fewer cells than the delimiter row was padded and became a table"),
 ("C18","F11","fixed",commit("SetPosition/SetPadding"),"known/C18/F11-setposition-stale-peek.json","source reader SetPosition kept the stale peeked line / line head"),
 ("C18","F23","fixed",commit("ResetPosition"),"known/C18/F23-resetposition.json","source reader ResetPosition resumed at the end of the current line instead of the start of the source"),
 ("C18","F24","fixed",commit("BlockReader.Value"),"known/C18/F24-blockreader-value-padding.json","BlockReader.Value of a whole-line segment carried the padding of the following line"),
 ("C19","F12","fixed",commit("URLEscape"),"known/C19/F12-urlescape-percent.json","URLEscape kept '%4g' (second hex digit never checked)"),
 ("C19","F13","fixed",commit("BytesFilter"),"known/C19/F13-extend-shares-slots.json","BytesFilter.Extend shared bucket slices between the parent's derived filters"),
 ("C19","F16","fixed",commit("decimal character"),"known/C19/F16-decimal-leading-zero.json","decimal character references with a leading zero were parsed as octal"),
 ("C20","F14","fixed",commit("renderer panics"),"known/C20/F14-late-kind.json","renderer indexed its dispatch table with a node kind created after initialisation: panic"),
 ("C06","F6","fixed",commit("table cell renderer"),"known/C06/F6-table-style-rerender.json","table cell renderer stored the computed style in the node: second render of the same tree differs"),
 ("C12","F15","fixed",commit("writes into the source buffer"),"known/C12/F15-forcenewline-append.json","Segment.Value appended a newline into the spare capacity of the caller's source slice"),
 ("C02","F2","fixed",commit("backslash hard break"),"known/C02/F2-backslash-hard-break.json","a backslash hard line break after an escaped backslash was not recognised"),
 ("C02","F16","fixed",commit("decimal character"),"known/C02/F16-decimal-reference-in-url.json","[a](&#065;) rendered href=\"5\": decimal reference with a leading zero parsed as octal"),
 ("C02","F18","fixed",commit("nested list marker"),"known/C02/F18-tab-after-nested-marker.json","a tab after a list marker that is not at column 0 was measured from the wrong column"),
 ("C02","F7","fixed",commit("HTML block types"),"known/C02/F7-html-block-in-quote.json","HTML block types 2-5 inside a block quote swallowed the marker of the line after their closing line"),
 ("C02","F19","known","","known/C02/F19-whitespace-only-code-line-in-item.json","a code-block line made only of spaces/tabs inside a list item loses its bytes (list item Continue treats it as a blank line; blank-line bookkeeping depends on that behaviour, so it is recorded, not repaired)"),
 ("C02","F20","known","","known/C02/F20-escaped-amp-in-url.json","[a](\\&amp;) renders href=\"&amp;\": a backslash-escaped '&' in a destination is unescaped first and then resolved as a character reference (URLEscape makes three passes; a repair needs a single-pass rewrite)"),
 ("C01","F25","fixed",commit("non-string id"),"known/C01/F25-numeric-heading-id.json","'# a {id=1}' with WithAttribute and WithAutoHeadingID panicked (type assertion on a float64 id); reported by the sub-agent that seeded C01 and then rediscovered by the enriched attribute tokens"),
 ("C01","F25b","fixed",commit("non-string id"),"known/C01/F25-setext-bool-id.json","the same for a Setext heading with a boolean id"),
 ("C01","F26","fixed",commit("fenced code line indented less"),"known/C01/F26-fence-line-padding.json","'+' / TAB SPACE '~~~' / TAB '=': a fenced code content line with fewer columns than the fence indent, carrying tab padding inside a list item, produced a segment that starts past its end: panic while rendering (found by the thorough tier of C03, present on the pinned tree)"),
 ("C02","F27","fixed",commit("two-space hard break escapes"),"known/C02/F27-stale-escape-after-hard-break.json","a backslash followed by a two-space hard break left the escape flag set: the first character of the next line was treated as escaped ('x\\  ' newline '\\*a*' rendered \\<em>a</em>)"),
 ("C11","F27","fixed",commit("two-space hard break escapes"),"known/C11/F27-linkify-stale-escape.json","the same stale escape flag made Linkify change '\\  ' newline '\\~' (found by the thorough tier of C11)"),
 ("C02","F28","fixed",commit("invalid title line"),"known/C02/F28-invalid-title-line.json","'[foo]: /url' followed by the line '\"title\" ok': the line is a paragraph (spec example 209) but the definition still recorded the title (reported by a seeding sub-agent, reproduced and fixed)"),
 ("C02","F29","fixed",commit("one-character info string"),"known/C02/F29-one-char-info-at-eof.json","'```c' as the last line without a line ending lost its info string (the guard assumed a trailing newline); reported by a seeding sub-agent as a by-product, reproduced by the constructed-document tier once the closing fence may be omitted at the end of the document"),
 ("C02","F30","fixed",commit("returns nothing for an empty segment"),"known/C02/F30-blank-last-code-line-no-eol.json","' ```' LF ' ' (last line holds only the fence's indentation, no line ending): the blank content line was dropped because ForceNewline skipped empty segments; found by the final-line-ending tier"),
 ("C02","F32","fixed",commit("wider than its byte length"),"known/C02/F32-tab-indented-last-line-no-eol.json","'> ' TAB '#' as the last line without a line ending rendered <p>#</p> instead of an empty heading (with the line ending it is a heading): openBlocks compared the indentation width in columns with the byte length of the line and took the line for blank; found by the thorough final-line-ending tier"),
 ("C02","F31","known","","known/C02/F31-quote-marker-only-last-line-in-fence.json","'> ```' LF '> ' without a final line ending: the last line is blank once the container markers are removed, and the blank content line of the fenced code block open inside the container is lost (with a final line ending it is kept): the quote parser consumes the whole line and the child never sees an empty line; in a list item ('- ```' LF '  ') Continue advances len(line)-1 and one byte of the indentation becomes content. A repair touches the block-continuation loop / reader end-of-input semantics; recorded, not repaired"),
 ("C02","F28b","fixed",commit("invalid title line"),"known/C02/F28b-invalid-title-line-dest-own-line.json","the same with the destination on a line of its own: that line was also left in the paragraph"),
]
EXTRA = os.path.join(os.path.dirname(__file__), "known_extra.json")
out = []
for p, i, st, commit, w, what in F:
    e = {"property": p, "id": i, "status": st, "witness": w, "what": what}
    if commit: e["commit"] = commit
    e["line"] = (f"fixed: property={p} {commit} {what}" if st == "fixed" else f"known: property={p} {what}")
    assert os.path.exists("/verif/" + w), w
    out.append(e)
json.dump({"comment": "Known findings of /verif checks. status=known: the witness still fails, the check prints KNOWN-FINDING and excludes failures carrying the same cause signature; status=fixed: repaired by the named 'fix:' commit in /repo, suppresses nothing (the witness is an ordinary regression input).", "findings": out}, open("/verif/known_findings.json", "w"), indent=1)
print(len(out), "entries")
