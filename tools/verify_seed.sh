#!/bin/sh
# usage: verify_seed.sh <srcdir with patch.diff and demo/> <name> [<ID> <tier>]...
# Applies the patch to a fresh scratch worktree of /repo HEAD, checks: compiles, repository suite green,
# demo fails with the change and passes without; then runs the given checks against the changed tree.
src=$1; name=$2; shift 2
export GOFLAGS=-mod=mod GOPROXY=off GOSUMDB=off GOTOOLCHAIN=local
wt=/tmp/vseed-$name
git -C /repo worktree remove --force $wt 2>/dev/null
git -C /repo worktree add -q --detach $wt HEAD || exit 2
(cd $wt && git apply $src/patch.diff) || {
  # written against an older HEAD: try a three-way merge and keep the rebased patch
  (cd $wt && git apply -3 $src/patch.diff && git reset -q && git diff > $src/patch.rebased && mv $src/patch.rebased $src/patch.diff && echo "patch rebased onto the current HEAD") ||
  (cd $wt && git reset -q --hard && { git apply -C1 --recount $src/patch.diff || patch -p1 -F3 -s < $src/patch.diff; } && find . -name '*.orig' -delete && go build ./... 2>/dev/null && git diff > $src/patch.rebased && mv $src/patch.rebased $src/patch.diff && echo "patch rebased onto the current HEAD (reduced context, builds)") ||
  { echo "PATCH DOES NOT APPLY"; git -C /repo worktree remove --force $wt; exit 2; }
}
(cd $wt && go build ./...) || { echo "DOES NOT COMPILE"; git -C /repo worktree remove --force $wt; exit 2; }
suite=$(cd $wt && go test -vet=off -count=1 ./... 2>&1 | grep -v "no test files")
if echo "$suite" | grep -q "^FAIL\|^---\|panic"; then echo "SUITE FAILS WITH CHANGE"; echo "$suite" | head -20; else echo "suite: green with change ($(echo "$suite" | grep -c '^ok') packages ok)"; fi
if [ -d $src/demo ]; then
  rm -rf /tmp/vdemo-$name; cp -r $src/demo /tmp/vdemo-$name
  for target in $wt /repo; do
    find /tmp/vdemo-$name -name go.mod -exec sed -i "s#=> /tmp/[A-Za-z0-9_/-]*#=> $target#; s#=> /repo\$#=> $target#" {} \;
    (cd /tmp/vdemo-$name && d=$(dirname $(find . -name go.mod | head -1)) && cd $d && rm -f go.sum && { if ls *_test.go >/dev/null 2>&1 || find . -name '*_test.go' | grep -q .; then go test -count=1 ./... ; else go run . ; fi; } >/tmp/vdemo-$name.out 2>&1; echo "demo against $target: exit $?")
  done
  rm -rf /tmp/vdemo-$name /tmp/vdemo-$name.out
fi
while [ $# -ge 2 ]; do
  echo "== check $1 $2 against the seeded change"
  VERIF_NOKNOWN=1 VERIF_REPO=$wt /verif/run.sh $1 $2 2>&1 | cut -c1-260 | head -${SEED_LINES:-8}
  shift 2
done
git -C /repo worktree remove --force $wt
[ -n "$VSEED_KEEP" ] || rm -rf /verif/.build/mutant/* 2>/dev/null
