#!/bin/sh
# usage: run_all.sh <tier> [seed]   runs every check, prints one line each
tier=${1:-quick}; export VERIF_SEED=${2:-1}
for i in 01 02 03 04 05 06 07 08 09 10 11 12 13 14 15 16 17 18 19 20; do
  start=$(date +%s)
  out=$(./run.sh C$i $tier 2>&1); rc=$?
  echo "C$i rc=$rc $(echo "$out" | grep -v KNOWN-FINDING | tail -1 | cut -c1-220) [$(( $(date +%s) - start )) s]"
  if [ $rc -ne 0 ]; then echo "$out" | head -30; fi
done
