module verif

go 1.23

toolchain go1.23.5

require (
	github.com/yuin/goldmark v0.0.0
	golang.org/x/net v0.34.0
	pgregory.net/rapid v1.3.0
)

replace github.com/yuin/goldmark => /repo
