package gen

import (
	"bytes"
	"strings"

	"pgregory.net/rapid"
)

// ClosedProfile is soup that cannot open a fenced code block or an HTML block
// and contains no CR; '[' is excluded as well when noBracket is set.
func closedProfile(noBracket bool) *Profile {
	// '<' is forbidden (it could open an HTML block at a line start) except
	// inside the extra tokens below, which begin with a word and therefore can
	// only be inline raw HTML; they carry \x1e in place of '<' until the
	// document is assembled.
	p := &Profile{Name: "closed", ForbidBytes: "\r<", ForbidSubstr: []string{"```", "~~~"}, NoHTML: true,
		Extra: []string{"x \x1e? y", "a \x1e!-- b", "c \x1e!X d", "e \x1e![CDATA[ f", "g \x1eb> h", "i \x1e/b> j", "k \x1ea href=\"u\" l", "m \x1e?php z ?> n", "o \x1e!-- p --> q"}}
	if noBracket {
		p.ForbidBytes += "["
		p.Name = "closed-nobracket"
	}
	return p
}

var (
	ClosedNoBracket = closedProfile(true)
	ClosedBracket   = closedProfile(false)
)

var closedBlocks = []string{
	"```\ncode\n```\n", "~~~ info\n# not a heading\n\n    x\n~~~\n", "````\n```\n````\n", "> ```\n> q\n> ```\n", "   ```\n   c\n   ```\n", "```\n```\n",
	"<script>\nvar x = 1;\n\n</script>\n", "<pre>\n\n*a*\n</pre>\n", "<!-- c\n\nd -->\n", "<!-- one line -->\n", "<?php\n\necho 1;\n?>\n", "<!DOCTYPE html>\n", "<![CDATA[\n\nx\n]]>\n", "<style>p{}</style>\n",
	"<div>\n*a*\n</div>\n\n", "<div>\n\n", "<table><tr><td>\nx\n</td></tr></table>\n\n", "<x-y a=\"b\">\nfoo\n\n", "</div>\n\n", "<a href=\"u\">\n\n",
	"    code\n\npara\n", "\tcode\n    more\n\nend\n", "- item\n\n      code\n\n  text\n", "- a\n- b\n", "1. a\n\n   b\n2. c\n", "> q\n> r\n", "> - a\n>   b\n", "# h\n", "a\n===\n", "***\n", "|a|b|\n|-|-|\n|c|d|\n", "- [ ] t\n- [x] u\n", "|a|\n|-|\n| `x` \\| y |\n", "`x\\|y` | z\n--|--|--\n", "|a|b|\n|-|-|\n|`c\\|d`|e\\|f|\n", "|h|\n|-|\n|`p\\|q`|\n", "~~s~~ www.a.bc\n", "a  \nb\\\nc\n",
	// header-only tables whose delimiter row ends in a one-character cell or a colon (end-of-input arithmetic)
	"a | b\n-|-\n", "a | b\n:- | -:\n", "|a|b|\n|-|:-:\n", "a|b\n:-:|-\n",
}

func init() {
	// towers of containers still open at the end of the block (depth limits, bookkeeping per open block)
	for _, n := range []int{20, 33, 40, 70} {
		closedBlocks = append(closedBlocks, strings.Repeat("- ", n)+"a\n", strings.Repeat("> ", n)+"q\n", strings.Repeat("1. ", n/2)+"b\n", strings.Repeat("> - ", n/2)+"c\n")
	}
}

// ClosedBlocks returns the closed block constructs (each ends with a line ending and leaves nothing open), those
// containing '[' left out when noBracket is set.
func ClosedBlocks(noBracket bool) []string {
	var out []string
	for _, b := range closedBlocks {
		if noBracket && strings.Contains(b, "[") {
			continue
		}
		out = append(out, b)
	}
	return out
}

// endsClosed is the syntactic test of the side condition "does not end
// inside an open fenced code block, indented code block or HTML block" for
// documents assembled from closed-profile soup and closed blocks: the last
// non-blank line is indented fewer than four columns.
func endsClosed(doc []byte) bool {
	lines := bytes.Split(doc, []byte("\n"))
	for i := len(lines) - 1; i >= 0; i-- {
		l := lines[i]
		if len(bytes.TrimLeft(l, " \t")) == 0 {
			continue
		}
		col := 0
		for _, c := range l {
			if c == ' ' {
				col++
			} else if c == '\t' {
				col += 4 - col%4
			} else {
				break
			}
		}
		return col < 4
	}
	return true
}

// ClosedDoc draws a document that, by construction, does not end inside an
// open fenced code block, indented code block or HTML block:
// soup (no fence, no '<') + closed blocks + soup, ending in a line indented
// less than four columns.
func ClosedDoc(t *rapid.T, p *Profile, maxTok int, label string) []byte {
	return ClosedDocWith(t, p, maxTok, label, nil)
}

// ClosedDocWith is ClosedDoc with a hook applied to every soup part (never
// to the generated closed blocks), e.g. to splice link references in.
func ClosedDocWith(t *rapid.T, p *Profile, maxTok int, label string, hook func([]byte) []byte) []byte {
	if hook == nil {
		hook = func(b []byte) []byte { return b }
	}
	var doc []byte
	n := rapid.IntRange(1, 3).Draw(t, label+"parts")
	for i := 0; i < n; i++ {
		// soup parts must not join into a fence across the part boundary
		join := func(part []byte) {
			if len(doc) > 0 && len(part) > 0 && (doc[len(doc)-1] == '`' || doc[len(doc)-1] == '~') && part[0] == doc[len(doc)-1] {
				doc = append(doc, ' ')
			}
			doc = append(doc, part...)
		}
		switch rapid.IntRange(0, 3).Draw(t, label+"part") {
		case 0, 1:
			join(hook(Soup(t, p, maxTok, label+"soup")))
		case 2:
			join(hook(Lines(t, p, 1+maxTok/4, label+"lines")))
		case 3:
			if len(doc) > 0 && !bytes.HasSuffix(doc, []byte("\n")) {
				doc = append(doc, '\n')
			}
			if len(doc) > 0 && rapid.Bool().Draw(t, label+"blank") {
				doc = append(doc, '\n')
			}
			b := rapid.SampledFrom(closedBlocks).Draw(t, label+"blk")
			if strings.Contains(p.ForbidBytes, "[") && strings.Contains(b, "[") {
				b = "> q\n"
			}
			if rapid.IntRange(0, 11).Draw(t, label+"patho") == 0 {
				// a paragraph of a repeated unit (worst-case scanning work) in place of the closed block
				b = string(p.Repair(PathologicalDoc(t, p, label+"pd"))) + "\n"
			}
			doc = append(doc, b...)
		}
	}
	// repair the assembled string: soup tokens may have joined into a fence
	// outside the closed blocks only if the profile's Repair missed them; the
	// closed blocks themselves legitimately contain fences and '<'.
	if !endsClosed(doc) {
		if !bytes.HasSuffix(doc, []byte("\n")) {
			doc = append(doc, '\n')
		}
		doc = append(doc, "end\n"...)
	}
	// one document in five ends without a final line ending (the end of input ends the last line); never
	// when the document ends in a blank line, which is what closes an HTML block of type 6 or 7
	if bytes.HasSuffix(doc, []byte("\n")) && !bytes.HasSuffix(doc, []byte("\n\n")) && rapid.IntRange(0, 4).Draw(t, label+"noeol") == 0 {
		doc = doc[:len(doc)-1]
	}
	return bytes.ReplaceAll(doc, []byte{0x1e}, []byte("<"))
}
