package gen

import (
	"bytes"
	"os"
	"strings"

	"pgregory.net/rapid"
)

// Profile removes token classes / bytes by construction.
type Profile struct {
	Name         string
	ForbidBytes  string   // bytes that must not occur in the document
	ForbidSubstr []string // substrings that must not occur (checked on the final string and repaired)
	ASCIIOnly    bool
	NoHTML       bool     // drop the HTML fragment class (for speed / focus)
	Extra        []string // extra tokens, weighted x3
}

// token classes; a class is repeated to give it weight.
var (
	tokWords  = []string{"a", "b", "foo", "bar", "baz", "Foo", "x", "1", "2", "10", "abc def", "word", "z", "A", "ß", "ẞ", "é", "日本", "語", "한", "http", "www", "com", "e"}
	tokSpace  = []string{" ", " ", " ", "  ", "   ", "    ", "     ", "\t", "\t\t", " \t", "\t "}
	tokNL     = []string{"\n", "\n", "\n", "\n", "\n\n", "\n\n", "\r\n", "\r", "\n \n", "\n\t\n", "  \n", "\\\n", "\\  \n", "a\\  \n\\", "\\\\\n"}
	tokBlock  = []string{"#", "##", "###", "######", "#######", "# ", "## ", "-", "- ", "+ ", "* ", "1.", "1. ", "9) ", "123456789. ", "1234567890. ", "0. ", "-\t", "> ", ">", ">>", "> > ", "```", "````", "~~~", "~~~~", "``` go", "~~~ a b", "===", "=", "---", "--", "***", "___", "* * *", "- - -", "_ _ _", "    ", "\t", "  - ", "   1. ", "```\n", "~~~\n"}
	tokInline = []string{"*", "**", "***", "_", "__", "___", "`", "``", "```", "[", "]", "(", ")", "![", "](", "][", "[]", "]:", "]: ", "<", ">", "\\", "\\\\", "&", ";", ":", "|", "\"", "'", "=", "!", "/", "#", "{", "}", ".", ",", "-", "+", "~", "^", "@", "%", "$", "?", "\n]", "\n](u)", "a\n](u)", "\n*", "*a\n*", "**a\n**", "\n_", "[foo\nbar]", "[foo\nbar][]", "[t][foo\nbar]", "![foo\nbar]", "[foo\nbar]: /u\n", "[foo\n bar]: /u \"t\"\n", "[r]", "[r][]", "[t][r]", "[r]: /u\n", "[R]: /v\n", "\n\n[r]: <u v> 't'\n\n"}
	tokEsc    = []string{"\\*", "\\_", "\\`", "\\[", "\\]", "\\(", "\\)", "\\<", "\\>", "\\\\", "\\&", "\\#", "\\!", "\\|", "\\~", "\\:", "\\\"", "\\'", "\\a", "\\ ", "\\\t", "\\\n", "\\\r\n",
		// a literal backslash (before a letter / digit / multi-byte character), plain bytes, then an inline trigger: the escape must not outlive its byte
		"\\a*b*", "\\a_b_", "x\\a`c`", "\\1[l](/u)", "\\é*e*", "\\a<http://a.b>", "\\a&amp;", "\\a![i](/u)", "\\ab~~c~~", "\\z\\*q*", "\\語**語**", "\\a\n*b*"}
	tokHTML = []string{"<a>", "</a>", "<a href=\"x\">", "<b>", "<div>", "</div>", "<div", "<pre>", "</pre>", "<script>", "</script>", "<style>", "</style>", "<textarea>", "</textarea>", "<!--", "-->", "<!-- c -->", "<!-->", "<!--->", "<?", "?>", "<?php x ?>", "<!A", "<!DOCTYPE html>", "<![CDATA[", "]]>", "<x-y z='1' w=\"2\" v=3 u>", "<br/>", "<br />", "<img src=x onerror=alert(1)>", "<table>", "<td>", "<p>", "</p>", "<h1>", "<a\n", "<del>", "<1>", "< a>", "<a/ >", "<a b='", "<A HREF=X>", "</ a>", "<a></b>"}
	tokEnt  = []string{"&amp;", "&lt;", "&gt;", "&quot;", "&copy;", "&nbsp;", "&ouml;", "&Dcaron;", "&ClockwiseContourIntegral;", "&ngE;", "&colon;", "&Tab;", "&NewLine;", "&lpar;", "&nosuch;", "&amp", "&#35;", "&#1234;", "&#0;", "&#065;", "&#992;", "&#x22;", "&#X22;", "&#xD06;", "&#xcab;", "&#x110000;", "&#xD800;", "&#99999999;", "&#9999999;", "&#;", "&#x;", "&#87654321;", "&#abc;", "&x;", "&#60;", "&#62;", "&#34;", "&#38;", "&#39;", "&nvlt;", "&nvgt;", "&LT;", "&GT;", "&AMP;", "&QUOT;", "&bne;", "&fjlig;", "&NotEqualTilde;", "&lt", "&Lt;", "&ThickSpace;", "&NewLine;x", "&Tab;x", "&nbsp", "&#x3C;", "&#x3e;", "&#x26;"}
	tokURL  = []string{"http://a.b", "https://example.com/p?q=1&r=2", "http://a.b/(c)", "ftp://x.yz", "www.a.bc", "www.x.y.zz/q", "a@b.c", "foo+x@bar.example.com", "mailto:a@b.c", "javascript:alert(1)", "JaVaScRiPt:x", "vbscript:x", "file:///etc/passwd", "data:text/html,x", "data:image/png;base64,AA", "/url", "/uri \"title\"", "<http://a.b>", "<a@b.c>", "<javascript:x>", "<made-up:x>", "<http://a b>", "<>", "(/u 't')", "(<u v>)", "(/u \"t\")", "http://", "://", "x://y",
		// a scheme followed by punctuation only (a permissive Linkify pattern matches it; trimming leaves the bare scheme)
		"ssh://...", "(ssh://...)", "use ssh://... here", "*ssh://..*", "x-app://!!", "http://.", "ftp://?!", " tel://,", "(http://.)", "~~ssh://...~~",
		// the same media type in its allowed (;) and its dangerous (,) spelling, in either order
		"data:image/png,x", "data:image/gif;base64,R0lG", "data:image/svg+xml,<svg>", "![a](data:image/png;base64,AAAA) ![b](data:image/png,x)", "![a](data:image/gif,x) ![b](data:image/gif;base64,R0lG)", "[a](data:image/webp,x) [b](data:image/webp;base64,UklG)", "<data:image/jpeg,x> ![j](data:image/jpeg;q)", "[a](JAVASCRIPT:x) [b](javascript:y) [c](https://x)"}
	tokAttr = []string{"{#id}", "{.cls}", "{#i .c k=v}", "{k=\"v\"}", "{data-x=y}", "{onclick=\"x\"}", "{#a #b}", "{.a.b}", "{k='v'}", "{k=v w}", "{", "}", " {#x}", "{#é}", "{k=\"a&b<c>\"}", "{k=\"a\\\"b\"}", "{style=\"x\"}", "{a=1 a=2}", "{title=\"<\"}", "{#}", "{.}", "{=}", "{k=}", "{k=\"", "{#id .c}\n", "{class=a .b}", "{class=a class=b}", "{.a class=b}", "{class=a .b .c}", "{id=1}", "{id=1.5}", "{id=-2}", "{id=true}", "{id=null}", "{class=1 .x}", "{k=1e3}", "{id=[1]}", "{id={a=b}}", "{id=\"x\" id=2}", "# h {class=foo .bar}\n", "# h {id=1}\n", "h {id=0}\n===\n", "{k=false .c}", "{class=\"a\" class=b}",
		// list / nested values whose string elements carry markup characters
		"{title=[\"a\\\"b\"]}", "{data-x=[\"<\", \"&\", \"\\\">\"]}", "# h {title=[x, \"\\\"><script>alert(1)</script>\"]}\n", "{class=[\"a\\\"b\" c]}", "{data-y=[[\"\\\" o=\\\"1\"]]}",
		"# h {title=[\"\\\" onmouseover=\\\"x\"]}\n", "{data-z=[1, true, \"q\\\"r\"]}", "{id=[\"a&b\"]}", "{title=[\"<b>\"] .c}", "## ## {#id}\n", "# # {.c}\n", "### b ### {#i .c}\n", "## ## {k=v}\n", "# #\n", "## ##\n", "#  # {#x}", "h {lang=[\"x\\\"y\", 2]}\n---\n",
		// an id / class / bare word followed by a number or boolean on a name the attribute filters let through; escaped quoted values
		"# Install {#install tabindex=3}\n", "{#i tabindex=3}", "{.c hidden=true}", "# h {hidden=true}\n", "# h {#i data-n=1.5 hidden=false}\n", "{title=t tabindex=-1 data-b=false}", "h {lang=en tabindex=12}\n===\n",
		"# t {title=\"say \\\"hi\\\"\"}\n", "# u {title=\"C:\\\\temp\\\\new\" data-k=\"q\\\"r\"}\n", "{title=\"a\\\"b\" tabindex=7}", "## v {data-a=\"x\\\\y\" data-b=\"p\\\"q\" data-c=2}\n"}
	tokExt = []string{"~~", "~", "~~~", "~~a~~", "|", "|-|", "|:-:|", "| - | - |", "|a|b|\n|-|-|\n|c|d|", "---|---", ":--", "--:", ":-:", "\\|", "[^1]", "[^1]:", "[^a]: ", "[^", "^]", "[ ]", "[x]", "[X] ", "- [ ] ", "- [x] ", ": ", ":", "\n: ", "\n:   ", "'", "\"", "--", "---", "...", "<<", ">>", "''", "\"a\"", "'a'", "a's", "\\ ", "(c)", "1'", "''\"", "'ve", "'re", "'ll", "'d", "'m", "'t", "'s", " 've\n", " 're\n\n", "we 'll", "I've", "'r", "'v", "\"'", "--\n", "...\n", "<<\n", "| `x` \\| y |", "| `p\\|q` |", "`x\\|y` | z\n--|--|--\n", "|a|\n|-|\n| `p\\|q` |\n", "|a|b|\n|-|-|\n| `x` \\| y | z |\n", "|`a\\|b`|\n|-|\n|`c\\|d`|e\\|f|\n", "\\|`", "`\\|", "|a|\n|-|\n|`<b>\\|`|\n", "`<\\|`", "`\"\\|&`",
		// definition lists whose later items have terms of several lines, the continuation line reached through a tab
		// inside a container (the term keeps the padding of that line) and holding what inline parsers trigger on
		">a\n>: b\n>\n>c\n>\ta@b.c d\n>: e\n", "- a\n  : b\n\n  c\n\thttp://a.b x\n  : d\n", ">t\n>: d\n>\n>u\n> \twww.a.bc *e* `c`\n>: f\n", "a\n: b\n\nc\n\t[l](/u) ~~s~~ \"q\"\n: d\n", ">a\n>: b\n>\n>c\n>\tx[^1] y\n>: d\n\n[^1]: n\n"}
	// near-triggers: look like an extension's syntax but with the wrong letter case, width or character
	tokNear = []string{"WWW.example.com", "Www.a.bc", "wWw.x.org/p", "ww.example.com", "wwww", "HTTP", "Https", "ftp.example.com", "example.com/path", "a.b.co",
		"mailto", "user\uff20host.com", "http\u2236//a.b", "\uff5e\uff5ea\uff5e\uff5e", "\u02dc\u02dca", "|a|b|\n|=|=|\n", "|a|\n|\u2014|\n", "|a|\n|_|\n", "- \uff3b \uff3d x", "- (x) a",
		"[\\^1]", "[ ^1]", "^1", "[\\^1]: n\n", "a\n\uff1a b\n", "a\n; b\n", "a\n  ~ b\n", "`` q \u00b4\u00b4", "(tm)", "(r)", "1/2", "+-", "\u2019", "\u2026", "\u00aba\u00bb",
		"\u2018a\u2019", "\u201ca\u201d", "a\\\tb", "a\\\thttp://example.com/", "\\\twww.a.bc", "x\\\ta@b.cd", "\\\tWWW.q.rs", "\\\t~~s~~", "\\\thttps://t.uv *e*", "WWW.A.BC\n", " Www.e.fg ", "(WWW.h.ij)", "*WWW.k.lm*", "HTTP\uff1a//n.op"}
	tokHost = []string{"\x00", "\x00\x00", "\x80", "\xbf", "\x80\x80", "\xc3", "\xe6\x97", "\xf0\x9f\x98", "\xc0\xaf", "\xff", "\xfe", "\xef\xbb\xbf", "\u200b", "\u00a0", "\u2003", "\u3000", "　", "、", "。", "（", "）", "「", "」", "ｱ", "가", "😀", "\x01", "\x1b", "\x7f", "\x0b", "\x0c", "\u2028", "\u0085", "İ", "ǅ", "ſ", "K", "ς",
		"日本 \n語", "語\n語", "a\n語", "語\na", "、\n語", "語 \n 語", "語\\\n語", "語  \n語", "語\n*語*", "*語*\n語", "語\n`a`", "ｱ\nｲ", "가\n나", "語\n\x80", "\x80\n語", "語\n", "\n語",
		// Unicode white space next to a line ending, alone and after an ASCII blank
		"あ \u3000\nい", "語\u3000\n語", "語\u00a0\n語", "a\u00a0\nb", "a \u00a0\n b", "語 \u2003\n語", "a\u2028\nb", "語\t\u3000\n語", "\u3000\n", " \u00a0\n", "\u3000 \n語", "*語*\u3000\n語"}
)

type tokenTable struct {
	toks []string
}

func buildTable(p *Profile) *tokenTable {
	var out []string
	add := func(class []string, weight int) {
		for _, tok := range class {
			if !p.tokenOK(tok) {
				continue
			}
			for i := 0; i < weight; i++ {
				out = append(out, tok)
			}
		}
	}
	add(tokWords, 3)
	add(tokSpace, 3)
	add(tokNL, 4)
	add(tokBlock, 2)
	add(tokInline, 2)
	add(tokEsc, 1)
	if !p.NoHTML {
		add(tokHTML, 1)
	}
	add(tokEnt, 1)
	add(tokURL, 1)
	add(tokAttr, 1)
	add(tokExt, 1)
	add(tokHost, 1)
	add(tokNear, 1)
	add(p.Extra, 3)
	return &tokenTable{toks: out}
}

func (p *Profile) tokenOK(tok string) bool {
	if p.ForbidBytes != "" && strings.ContainsAny(tok, p.ForbidBytes) {
		return false
	}
	for _, s := range p.ForbidSubstr {
		if strings.Contains(tok, s) {
			return false
		}
	}
	if p.ASCIIOnly {
		for i := 0; i < len(tok); i++ {
			if tok[i] >= 0x80 {
				return false
			}
		}
	}
	return true
}

var tableCache = map[*Profile]*tokenTable{}

func (p *Profile) table() *tokenTable {
	if t, ok := tableCache[p]; ok {
		return t
	}
	t := buildTable(p)
	tableCache[p] = t
	return t
}

// Repair enforces the profile on an assembled document by construction:
// forbidden bytes are deleted, forbidden substrings are broken up by
// deleting their last byte until none is left.
func (p *Profile) Repair(doc []byte) []byte {
	if p.ForbidBytes != "" && bytes.ContainsAny(doc, p.ForbidBytes) {
		out := doc[:0:0]
		for _, b := range doc {
			if strings.IndexByte(p.ForbidBytes, b) < 0 {
				out = append(out, b)
			}
		}
		doc = out
	}
	if p.ASCIIOnly {
		out := doc[:0:0]
		for _, b := range doc {
			if b < 0x80 {
				out = append(out, b)
			}
		}
		doc = out
	}
	for changed := true; changed; {
		changed = false
		for _, s := range p.ForbidSubstr {
			for {
				i := bytes.Index(doc, []byte(s))
				if i < 0 {
					break
				}
				j := i + len(s) - 1
				doc = append(doc[:j:j], doc[j+1:]...)
				changed = true
			}
		}
	}
	return doc
}

// OK reports whether doc satisfies the profile.
func (p *Profile) OK(doc []byte) bool {
	if p.ForbidBytes != "" && bytes.ContainsAny(doc, p.ForbidBytes) {
		return false
	}
	for _, s := range p.ForbidSubstr {
		if bytes.Contains(doc, []byte(s)) {
			return false
		}
	}
	if p.ASCIIOnly {
		for _, b := range doc {
			if b >= 0x80 {
				return false
			}
		}
	}
	return true
}

// Any is the unrestricted profile.
var Any = &Profile{Name: "any"}

// Soup draws 1..maxTok tokens.
func Soup(t *rapid.T, p *Profile, maxTok int, label string) []byte {
	tab := p.table()
	idx := rapid.SliceOfN(rapid.IntRange(0, len(tab.toks)-1), 1, maxTok).Draw(t, label)
	var b []byte
	for _, i := range idx {
		b = append(b, tab.toks[i]...)
	}
	return p.Repair(b)
}

// inlineSoup draws a short inline run without newlines.
func inlineSoup(t *rapid.T, p *Profile, maxTok int, label string) []byte {
	b := Soup(t, p, maxTok, label)
	b = bytes.ReplaceAll(b, []byte("\n"), []byte(" "))
	b = bytes.ReplaceAll(b, []byte("\r"), []byte(" "))
	return b
}

var (
	lineIndents    = []string{"", "", "", " ", "  ", "   ", "    ", "     ", "      ", "\t", " \t", "  \t", "\t ", "\t\t"}
	lineContainers = []string{"> ", ">", "- ", "* ", "+ ", "1. ", "2) ", "10. ", "-   ", "-\t", "1.\t", ">\t", "-     ", "- - ", "> - ", "1. > "}
	lineLeaves     = []string{"", "", "", "# ", "## ", "#", "```", "~~~", "````", "``` x", "    ", "\t", "---", "***", "===", "=", "<div>", "</div>", "<!--", "-->", "<pre>", "</pre>", "<?", "?>", "<x>", "[a]: /u", "[a]: /u 't'", "[a]:", "|a|b|", "|-|-|", "a|b", "-|-", ": ", ":   ", "[^1]: ", "- [ ] ", "[ ] ", "<![CDATA[", "]]>", "<!X", "<script>", "</script>"}
	lineEnds       = []string{"\n", "\n", "\n", "\n", "\n", "\n\n", "\r\n", "\r", "  \n", "\\\n", " \n", "\t\n", ""}
)

// Lines draws a line-structured document: indentation + container markers +
// leaf opener + inline soup + line ending, with consecutive lines biased to
// continue (or just fail to continue) the previous structure.
func Lines(t *rapid.T, p *Profile, maxLines int, label string) []byte {
	n := rapid.IntRange(1, maxLines).Draw(t, label+"N")
	var doc []byte
	var prevPrefix []byte
	for i := 0; i < n; i++ {
		var prefix []byte
		mode := rapid.IntRange(0, 9).Draw(t, label+"mode")
		switch {
		case mode <= 2 && prevPrefix != nil:
			// same prefix as the previous line (continuation)
			prefix = append(prefix, prevPrefix...)
		case mode == 3 && len(prevPrefix) > 0:
			// one byte less: just fails to continue
			prefix = append(prefix, prevPrefix[:len(prevPrefix)-1]...)
		case mode == 4 && prevPrefix != nil:
			// continuation indentation instead of markers (list item content)
			for range prevPrefix {
				prefix = append(prefix, ' ')
			}
		case mode == 5 && prevPrefix != nil:
			// lazy: no prefix
		default:
			prefix = append(prefix, rapid.SampledFrom(lineIndents).Draw(t, label+"ind")...)
			nc := rapid.IntRange(0, 3).Draw(t, label+"nc")
			for k := 0; k < nc; k++ {
				prefix = append(prefix, rapid.SampledFrom(lineContainers).Draw(t, label+"con")...)
				if rapid.IntRange(0, 5).Draw(t, label+"ci") == 0 {
					prefix = append(prefix, rapid.SampledFrom(lineIndents).Draw(t, label+"ind2")...)
				}
			}
		}
		doc = append(doc, prefix...)
		doc = append(doc, rapid.SampledFrom(lineLeaves).Draw(t, label+"leaf")...)
		if rapid.IntRange(0, 4).Draw(t, label+"hasinl") != 0 {
			doc = append(doc, inlineSoup(t, p, 6, label+"inl")...)
		}
		doc = append(doc, rapid.SampledFrom(lineEnds).Draw(t, label+"end")...)
		prevPrefix = prefix
	}
	return p.Repair(doc)
}

var nestUnits = []string{"> ", "- ", "1. ", "* ", "+ ", "[", "![", "*", "_", "**", "`", "<", "(", "{", "[a](", "<a>", "<div>", "\\", "&", "[^", "|", "~~", "\t", "  ", ">", "]", ")", "\"", "'", "*a_", "_a*", "[[", "]]", "[](", "![](", "# ", "`` ` ", "a\n", "> a\n", "- a\n", "\n", "```\n", ": ", "[^1]", "[^1]: ", "* * ", "1) ", "&#", "<!--", "<?"}

// Nest builds k-fold repetitions of 1..3 units followed by a tail — the
// arbitrarily deep nesting part of the C01 domain (size capped at maxBytes).
func Nest(t *rapid.T, p *Profile, maxBytes int, label string) []byte {
	nu := rapid.IntRange(1, 3).Draw(t, label+"nu")
	var unit []byte
	for i := 0; i < nu; i++ {
		unit = append(unit, rapid.SampledFrom(nestUnits).Draw(t, label+"u")...)
	}
	k := rapid.IntRange(1, 4000).Draw(t, label+"k")
	if k*len(unit) > maxBytes {
		k = maxBytes / len(unit)
	}
	doc := bytes.Repeat(unit, k)
	doc = append(doc, inlineSoup(t, p, 4, label+"tail")...)
	if rapid.Bool().Draw(t, label+"mirror") {
		// add matching closers
		cl := rapid.SampledFrom([]string{"]", ")", "*", "_", "`", ">", "}", "](u)", "**", "\n"}).Draw(t, label+"cl")
		m := k
		if m*len(cl) > maxBytes {
			m = maxBytes / len(cl)
		}
		if cl == "\n" && m > 200 && os.Getenv("VERIF_NEST_BLANK_CAP") != "" {
			// k open containers followed by m blank lines cost goldmark k*m bookkeeping entries (measured: 2500 x 5000
			// needs 1.8 GB for a 10 KB document - noted in DESIGN as the nearest thing to a resource exhaustion);
			// sixteen shards doing that at once exhaust the machine, which would make the run inconclusive
			m = 200
		}
		doc = append(doc, bytes.Repeat([]byte(cl), m)...)
	}
	return p.Repair(doc)
}

// LineAtoms returns the line vocabulary of the bounded-exhaustive
// line-structured tier: indentation x line content. The reduced set is used
// for triples in the quick tier.
func LineAtoms(full bool) []string {
	indents := []string{"", " ", "   ", "    ", "\t", " \t", "\t "}
	contents := []string{"", "-", "- a", "+", "1.", "1. a", "> a", ">", "```", "~~~", "a", "=", "---", "# a", "<div>", "<!--", "-->", "[a]: b", "|a|", "|-|", ": a", "[^1]: a", "* * *", "a  ", "\\", "#", "> \t#"}
	if !full {
		indents = []string{"", "  ", "    ", "\t", "\t "}
		contents = []string{"", "-", "+ a", "1.", ">", "~~~", "a", "=", "<!--", "|-|"}
	}
	var out []string
	for _, in := range indents {
		for _, c := range contents {
			out = append(out, in+c)
		}
	}
	return out
}

// Constructs returns complete block-level constructs (1-3 lines each, no
// trailing newline) for the bounded-exhaustive construct-adjacency tier:
// documents are sequences of constructs joined by a line end or a blank line.
func Constructs(full bool) []string {
	small := []string{"a", "# h", "h\n===", "---", "- a", "-", "1. a", "> q", "    code", "```\nc\n```", "```", "<div>", "<!--", "[x]: /u", "[x]", "|a|b|\n|-|-|", "a\n: b", ": c", "[^1]: n", "x[^1]", "*e* `c`", "\ta", "a  ", "{#id}"}
	if !full {
		return small
	}
	return append(small, "a\nb", "h\n---", "***", "- a\n- b", "1)", ">", "\tcode", "~~~\nc", "<div>\nx\n</div>", "<!-- c -->", "[x]: /u 't'", "[x]:", "|a|\n|-|\n|c|", ":", "[^1]", "- [ ] t", "~~s~~", "www.a.bc", "![i](u)", "<b>", "&amp;", "\\", "  a", "# h {#i}", "## ## {#i}", "# # {.c}", "a {.c}\n===", "\"q\"", "--", "日本\n語", "\x00", "\x80", "=", "+", "1.", "    ", ">>", "[x]: <u v>\n'title' ok", "* * *", "a\\", "[a](u)", "<a@b.c>", "x\n: y\n: z", "- a\n\n  b")
}

// EnumConstructDocs calls f for every pair (always) and triple (per tier) of
// constructs with every combination of separators; idx counts documents so
// that callers can partition by shard.
func EnumConstructDocs(thorough bool, f func(idx int, doc []byte)) int {
	seps := []string{"\n", "\n\n"}
	full := Constructs(true)
	idx := 0
	for _, a := range full {
		for _, b := range full {
			for _, s := range seps {
				idx++
				f(idx, []byte(a+s+b+"\n"))
			}
		}
	}
	pool := Constructs(thorough)
	for _, a := range pool {
		for _, b := range pool {
			for _, c := range pool {
				for _, s1 := range seps {
					for _, s2 := range seps {
						idx++
						f(idx, []byte(a+s1+b+s2+c))
					}
				}
			}
		}
	}
	return idx
}
