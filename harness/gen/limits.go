package gen

import (
	"strconv"
	"strings"

	"pgregory.net/rapid"
)

// filler returns n bytes of words separated by single spaces or line endings (never blank lines, never a
// line that could start a block), so that a long span can run over several lines.
func filler(t *rapid.T, n int, multiline bool, label string) string {
	var sb strings.Builder
	col := 0
	for sb.Len() < n {
		rest := n - sb.Len()
		w := rapid.IntRange(1, 9).Draw(t, label+"w")
		if w > rest {
			w = rest
		}
		sb.WriteString(strings.Repeat(string(rune('a'+w%26)), w))
		col += w
		if sb.Len() >= n-1 {
			continue
		}
		if multiline && col > rapid.IntRange(30, 90).Draw(t, label+"wrap") {
			sb.WriteByte('\n')
			col = 0
		} else {
			sb.WriteByte(' ')
			col++
		}
	}
	s := sb.String()
	for len(s) < n {
		s += "z"
	}
	return s[:n]
}

// NearLimitDoc draws a document that sits within a few bytes of one of the size limits the syntax knows:
// 999 characters of a link label (as definition and as full / collapsed / shortcut reference, on one line or
// spread over several), two unmatched '[' about a label length apart followed by a link, 32 characters of an
// autolink scheme, 63 / 255 characters of a domain label in e-mail and extended autolinks, 7 decimal / 6
// hexadecimal digits of a numeric character reference, a single line around the 4096 bytes of an output buffer.
func NearLimitDoc(t *rapid.T, label string) []byte {
	d := rapid.IntRange(-4, 4).Draw(t, label+"delta")
	switch rapid.IntRange(0, 7).Draw(t, label+"limit") {
	case 0, 1: // link label
		multi := rapid.Bool().Draw(t, label+"multi")
		lab := filler(t, 999+d, multi, label+"lab")
		use := []string{"[" + lab + "]", "[text][" + lab + "]", "[" + lab + "][]", "![" + lab + "]"}[rapid.IntRange(0, 3).Draw(t, label+"use")]
		if rapid.Bool().Draw(t, label+"deffirst") {
			return []byte("[" + lab + "]: /near-limit\n\n" + use + " end\n")
		}
		return []byte(use + " end\n\n[" + lab + "]: /near-limit 'title'\n")
	case 2: // two unmatched openers a label length apart, then a link
		return []byte("[a\n" + filler(t, 994+d, rapid.Bool().Draw(t, label+"multi"), label+"fill") + "[b [c](/u) d\n")
	case 3: // link text of about a label length with brackets inside
		return []byte("[" + filler(t, 990+d, true, label+"txt") + " [x] y](/u) and [z][" + filler(t, 20, false, label+"l2") + "]\n")
	case 4: // autolink scheme
		return []byte("<" + strings.Repeat("s", 32+d/2) + ":x> and <a" + strings.Repeat("+", 31+d/2) + ":y>\n")
	case 5: // domain labels
		return []byte("<u@" + strings.Repeat("d", 63+d/2) + ".example> u@" + strings.Repeat("e", 63+d/2) + ".example http://" + strings.Repeat("h", 256+d) + ".example/p www." + strings.Repeat("w", 256+d) + ".example\n")
	case 6: // numeric references
		return []byte("&#" + strings.Repeat("0", 7+d/2-2) + "65; &#x" + strings.Repeat("0", 6+d/2-2) + "41; &#" + strconv.Itoa(1114111+d) + "; &#x" + strconv.FormatInt(int64(0x10FFFF+d), 16) + ";\n")
	default: // one long line
		n := []int{4096, 8192, 1000, 65536 / 8}[rapid.IntRange(0, 3).Draw(t, label+"buf")]
		pre := []string{"", "> ", "- ", "    ", "# ", "`", "[l](/u \"", "<!-- "}[rapid.IntRange(0, 7).Draw(t, label+"pre")]
		return []byte(pre + filler(t, n+d-len(pre), false, label+"line") + "\n\nafter\n")
	}
}

// pathological shapes, after cmark's pathological_tests.py: a short unit repeated n times (and sometimes a
// second unit repeated n times after it), which makes delimiter / bracket / raw-HTML scanning do its worst-case
// amount of work. {n} in a unit stands for the running index.
var pathoShapes = [][2]string{
	{"*a **a ", " a** a*"}, {"a_ ", ""}, {"_a ", ""}, {"a]", ""}, {"[a", ""}, {"*a_ ", ""}, {"c* ", ""}, {"[ a_", ""}, {"[ (](", ""}, {"![[]()", ""},
	{"[", "]"}, {"> ", ""}, {"`", " "}, {"e``{n}", ""}, {"[a](<b", ""}, {"[a](b", ""}, {"<!--", ""}, {"<?", ""}, {"<!A ", ""}, {"<![CDATA[", ""}, {"<a ", ""},
	{"_a ", "b* "}, {"*a ", "b_ "}, {"**a ", "b~~ "}, {"~~a ", "b** "}, {"[a ", "b) "}, {"![", "*] "}, {"&", ";"}, {"\\", ""}, {"*", ""}, {"_", "*"}, {"- ", "\n"},
	{"[{n}]: /u\n", "[{n}] "}, {"a[^{n}] ", "\n\n[^{n}]: n"}, {"|", "\n|-"}, {"'", "\""}, {"www.a.b(", ")"}, {"a@b.c_", ""}, {"~", "~~ "},
}

// PathologicalDoc draws one of the shapes with n = 40..400 repetitions (total size capped at 6 KiB), optionally
// followed by a short ordinary paragraph with emphasis, a link and a code span, so that what the repeated part
// leaves behind (budgets, memos, counters) meets ordinary syntax.
func PathologicalDoc(t *rapid.T, p *Profile, label string) []byte {
	var ok [][2]string
	for _, s := range pathoShapes {
		if p.tokenOK(s[0]) && p.tokenOK(s[1]) {
			ok = append(ok, s)
		}
	}
	s := ok[rapid.IntRange(0, len(ok)-1).Draw(t, label+"shape")]
	n := []int{40, 64, 100, 128, 200, 255, 256, 257, 300, 400}[rapid.IntRange(0, 9).Draw(t, label+"n")]
	for n > 40 && n*(len(s[0])+len(s[1])+2) > 6144 {
		n /= 2
	}
	var sb strings.Builder
	rep := func(unit string) {
		if unit == "" {
			return
		}
		for i := 0; i < n; i++ {
			sb.WriteString(strings.ReplaceAll(unit, "{n}", strconv.Itoa(i)))
		}
	}
	rep(s[0])
	if rapid.Bool().Draw(t, label+"mid") {
		sb.WriteString("x")
	}
	rep(s[1])
	if rapid.IntRange(0, 2).Draw(t, label+"tail") != 0 {
		tail := "\n\nsome *emphasised* and __strong__ words, `code` and a [link](/u)\n"
		if !p.tokenOK(tail) {
			tail = "\n\nsome *emphasised* and __strong__ words, `code`\n"
		}
		if p.tokenOK(tail) {
			sb.WriteString(tail)
		}
	} else {
		sb.WriteString("\n")
	}
	return []byte(sb.String())
}
