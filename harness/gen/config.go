// Package gen holds the shared generators: configurations, Markdown soup,
// line-structured documents, spec examples and mutations.
package gen

import (
	"regexp"
	"sort"
	"strconv"
	"strings"
	"sync"

	"github.com/yuin/goldmark"
	"github.com/yuin/goldmark/ast"
	"github.com/yuin/goldmark/extension"
	"github.com/yuin/goldmark/parser"
	"github.com/yuin/goldmark/renderer"
	"github.com/yuin/goldmark/renderer/html"
	"github.com/yuin/goldmark/util"
	"pgregory.net/rapid"
)

// Config is a point of the lattice of built-in configurations.
type Config struct {
	GFM                          bool // extension.GFM as one object
	Linkify, Table, Strike, Task bool // the members individually
	DefList, Footnote, Typo      bool
	CJK                          int // 0 none, 1 extension.CJK, 2 simple, 3 css3draft, 4 escaped space only, 5 css3draft+escaped space
	AutoID, Attr                 bool
	Unsafe, XHTML, HardWraps     bool
	TableAlign                   int // 0 default, 1 attribute, 2 style, 3 none
	// footnote id prefix: 0 none; 1 "x-", 2 "doc-", 3 "article12-" through NewFootnote(WithFootnoteIDPrefix);
	// 4 "x-" through goldmark.WithRendererOptions(WithFootnoteIDPrefix) (reaches the renderer by option name,
	// after it was constructed); 5 a prefix *function* whose value depends on the document being rendered;
	// 6 both a fixed prefix and the prefix function, through goldmark.WithRendererOptions (option values travel in a
	// map there: whichever the renderer prefers, every instance must prefer the same)
	FnPrefix int
	// TypoOff: typographer substitutions switched off with a nil replacement (the documented way):
	// 0 none, 1 LeftDoubleQuote, 2 RightDoubleQuote, 3 the single quotes and the apostrophe, 4 all of them
	TypoOff int
	// FnOpt: footnote rendering options (titles, classes, back-link HTML with the ^^ / %% placeholders):
	// 0 none; 1 all five through NewFootnote; 2 titles holding characters that need escaping, through
	// goldmark.WithRendererOptions (reaches the renderer by option name)
	FnOpt int
	// LinkProto: 0 default protocols; 1 NewLinkify(WithLinkifyAllowedProtocols(https:, ftp:)); 2 a protocol list that
	// includes tel:, javascript:, data:, file:, vbscript: together with a URL pattern accepting any scheme
	// (every linkified URL is still an AutoLink the safe renderer must vet); 3 the protocol list of 2 with the
	// permissive pattern \w+://[^\s]+ of the library's own option test (it matches "ssh://..." - after the
	// trailing punctuation is trimmed nothing but the scheme is left)
	LinkProto int
	// RChan: how the renderer options reach the core HTML renderer: 0 goldmark.WithRendererOptions (by option name,
	// through SetOption); 1 as functional options of html.NewRenderer, installed with goldmark.WithRenderer(
	// renderer.NewRenderer(renderer.WithNodeRenderers(...))) - the other documented way. Only for configurations
	// whose extension renderers do not consult these switches themselves (no TaskList, no Footnote, no Table).
	RChan int
}

var linkProtos = []string{"https:", "ftp:", "http:", "tel:", "x-app:", "javascript:", "data:", "file:", "vbscript:", "JavaScript:"}

// looseEmail is a user-supplied e-mail pattern (WithLinkifyEmailRegexp) that lets a ':' into the local part.
var looseEmail = regexp.MustCompile(`^[^\s@<>]+@[^\s@<>]+\.[^\s@<>]+`)

// anySchemeURL is a user-supplied URL pattern (WithLinkifyURLRegexp) that accepts every scheme; it still needs a ':'.
var anySchemeURL = regexp.MustCompile(`^[A-Za-z][A-Za-z0-9+.-]*:[^\s<]*[^\s<?!.,:*_~]`)

// wordSchemeURL is the permissive URL pattern of goldmark's own TestLinkifyWithAllowedProtocols.
var wordSchemeURL = regexp.MustCompile(`\w+://[^\s]+`)

var fnPrefixes = []string{"", "x-", "doc-", "article12-", "x-", "", "x-"}

// FnPrefixFunc derives a per-document prefix from the tree the node belongs to (number of top-level blocks).
func FnPrefixFunc(n ast.Node) []byte {
	root := n
	for root.Parent() != nil {
		root = root.Parent()
	}
	return []byte("d" + strconv.Itoa(root.ChildCount()) + "-")
}

// String is the canonical, parseable name.
func (c Config) String() string {
	var p []string
	add := func(b bool, s string) {
		if b {
			p = append(p, s)
		}
	}
	add(c.GFM, "gfm")
	add(c.Linkify, "linkify")
	add(c.Table, "table")
	add(c.Strike, "strike")
	add(c.Task, "task")
	add(c.DefList, "deflist")
	add(c.Footnote, "footnote")
	add(c.Typo, "typo")
	if c.Typo && c.TypoOff != 0 {
		p = append(p, "tyo"+string(rune('0'+c.TypoOff)))
	}
	if c.CJK != 0 {
		p = append(p, "cjk"+string(rune('0'+c.CJK)))
	}
	add(c.AutoID, "autoid")
	add(c.Attr, "attr")
	add(c.Unsafe, "unsafe")
	add(c.XHTML, "xhtml")
	add(c.HardWraps, "hardwraps")
	if c.TableAlign != 0 {
		p = append(p, "ta"+string(rune('0'+c.TableAlign)))
	}
	if c.FnPrefix != 0 && c.Footnote {
		p = append(p, "fnp"+string(rune('0'+c.FnPrefix)))
	}
	if c.FnOpt != 0 && c.Footnote {
		p = append(p, "fno"+string(rune('0'+c.FnOpt)))
	}
	if c.RChan != 0 && c.rchanOK() {
		p = append(p, "rch"+string(rune('0'+c.RChan)))
	}
	if c.LinkProto != 0 && c.Linkify && !c.GFM {
		p = append(p, "lpr"+string(rune('0'+c.LinkProto)))
	}
	if len(p) == 0 {
		return "core"
	}
	return strings.Join(p, "+")
}

// ParseConfig is the inverse of String.
func ParseConfig(s string) Config {
	var c Config
	for _, tok := range strings.Split(s, "+") {
		switch tok {
		case "gfm":
			c.GFM = true
		case "linkify":
			c.Linkify = true
		case "table":
			c.Table = true
		case "strike":
			c.Strike = true
		case "task":
			c.Task = true
		case "deflist":
			c.DefList = true
		case "footnote":
			c.Footnote = true
		case "typo":
			c.Typo = true
		case "autoid":
			c.AutoID = true
		case "attr":
			c.Attr = true
		case "unsafe":
			c.Unsafe = true
		case "xhtml":
			c.XHTML = true
		case "hardwraps":
			c.HardWraps = true
		default:
			if strings.HasPrefix(tok, "cjk") && len(tok) == 4 {
				c.CJK = int(tok[3] - '0')
			}
			if strings.HasPrefix(tok, "ta") && len(tok) == 3 {
				c.TableAlign = int(tok[2] - '0')
			}
			if strings.HasPrefix(tok, "tyo") && len(tok) == 4 {
				c.TypoOff = int(tok[3]-'0') % 5
			}
			if strings.HasPrefix(tok, "fnp") && len(tok) == 4 {
				c.FnPrefix = int(tok[3]-'0') % len(fnPrefixes)
			}
			if strings.HasPrefix(tok, "fno") && len(tok) == 4 {
				c.FnOpt = int(tok[3]-'0') % 3
			}
			if strings.HasPrefix(tok, "rch") && len(tok) == 4 {
				c.RChan = int(tok[3]-'0') % 2
			}
			if strings.HasPrefix(tok, "lpr") && len(tok) == 4 {
				c.LinkProto = int(tok[3]-'0') % 4
			}
		}
	}
	return c
}

// HasTable etc. report the effective extension set.
func (c Config) HasTable() bool   { return c.GFM || c.Table }
func (c Config) HasLinkify() bool { return c.GFM || c.Linkify }
func (c Config) HasStrike() bool  { return c.GFM || c.Strike }
func (c Config) HasTask() bool    { return c.GFM || c.Task }

// Extensions returns the goldmark extenders of the configuration.
func (c Config) Extensions() []goldmark.Extender {
	var exts []goldmark.Extender
	tableOpts := []extension.TableOption{}
	switch c.TableAlign {
	case 1:
		tableOpts = append(tableOpts, extension.WithTableCellAlignMethod(extension.TableCellAlignAttribute))
	case 2:
		tableOpts = append(tableOpts, extension.WithTableCellAlignMethod(extension.TableCellAlignStyle))
	case 3:
		tableOpts = append(tableOpts, extension.WithTableCellAlignMethod(extension.TableCellAlignNone))
	}
	if c.GFM {
		exts = append(exts, extension.GFM)
	}
	if c.Linkify {
		switch c.LinkProto {
		case 1:
			exts = append(exts, extension.NewLinkify(extension.WithLinkifyAllowedProtocols(linkProtos[:2])))
		case 2:
			exts = append(exts, extension.NewLinkify(extension.WithLinkifyAllowedProtocols(linkProtos), extension.WithLinkifyURLRegexp(anySchemeURL), extension.WithLinkifyEmailRegexp(looseEmail)))
		case 3:
			exts = append(exts, extension.NewLinkify(extension.WithLinkifyAllowedProtocols(append([]string{"ssh:"}, linkProtos...)), extension.WithLinkifyURLRegexp(wordSchemeURL)))
		default:
			exts = append(exts, extension.Linkify)
		}
	}
	if c.Table {
		if len(tableOpts) > 0 {
			exts = append(exts, extension.NewTable(tableOpts...))
		} else {
			exts = append(exts, extension.Table)
		}
	}
	if c.Strike {
		exts = append(exts, extension.Strikethrough)
	}
	if c.Task {
		exts = append(exts, extension.TaskList)
	}
	if c.GFM && c.TableAlign != 0 && !c.Table {
		// GFM installs the default table; a later NewTable with options
		// re-registers parser pieces with the same priority, so pin the
		// alignment method through an explicit table instead of GFM.
		exts = exts[:0]
		exts = append(exts, extension.Linkify, extension.NewTable(tableOpts...), extension.Strikethrough, extension.TaskList)
	}
	if c.DefList {
		exts = append(exts, extension.DefinitionList)
	}
	if c.Footnote {
		var fo []extension.FootnoteOption
		switch {
		case c.FnPrefix >= 1 && c.FnPrefix <= 3:
			fo = append(fo, extension.WithFootnoteIDPrefix(fnPrefixes[c.FnPrefix]))
		case c.FnPrefix == 5:
			fo = append(fo, extension.WithFootnoteIDPrefixFunction(FnPrefixFunc))
		} // 0, and 4 (the prefix arrives through RendererOptions)
		if c.FnOpt == 1 {
			fo = append(fo, extension.WithFootnoteLinkTitle("note ^^ (%% refs)"), extension.WithFootnoteBacklinkTitle("back from ^^ of %%"),
				extension.WithFootnoteLinkClass("fref r^^"), extension.WithFootnoteBacklinkClass("fback n%%"),
				extension.WithFootnoteBacklinkHTML("^^&#8617;"))
		}
		if len(fo) > 0 {
			exts = append(exts, extension.NewFootnote(fo...))
		} else {
			exts = append(exts, extension.Footnote)
		}
	}
	if c.Typo {
		off := map[int][]extension.TypographicPunctuation{
			1: {extension.LeftDoubleQuote}, 2: {extension.RightDoubleQuote},
			3: {extension.LeftSingleQuote, extension.RightSingleQuote, extension.Apostrophe},
			4: {extension.LeftSingleQuote, extension.RightSingleQuote, extension.LeftDoubleQuote, extension.RightDoubleQuote, extension.EnDash, extension.EmDash, extension.Ellipsis, extension.LeftAngleQuote, extension.RightAngleQuote, extension.Apostrophe},
		}[c.TypoOff]
		if len(off) > 0 {
			subs := map[extension.TypographicPunctuation][]byte{}
			for _, k := range off {
				subs[k] = nil
			}
			exts = append(exts, extension.NewTypographer(extension.WithTypographicSubstitutions(subs)))
		} else {
			exts = append(exts, extension.Typographer)
		}
	}
	switch c.CJK {
	case 1:
		exts = append(exts, extension.CJK)
	case 2:
		exts = append(exts, extension.NewCJK(extension.WithEastAsianLineBreaks(extension.EastAsianLineBreaksSimple)))
	case 3:
		exts = append(exts, extension.NewCJK(extension.WithEastAsianLineBreaks(extension.EastAsianLineBreaksCSS3Draft)))
	case 4:
		exts = append(exts, extension.NewCJK(extension.WithEscapedSpace()))
	case 5:
		exts = append(exts, extension.NewCJK(extension.WithEastAsianLineBreaks(extension.EastAsianLineBreaksCSS3Draft), extension.WithEscapedSpace()))
	}
	return exts
}

// ParserOptions / RendererOptions of the configuration.
func (c Config) ParserOptions() []parser.Option {
	var o []parser.Option
	if c.AutoID {
		o = append(o, parser.WithAutoHeadingID())
	}
	if c.Attr {
		o = append(o, parser.WithAttribute())
	}
	return o
}
func (c Config) RendererOptions() []renderer.Option {
	var o []renderer.Option
	if c.Unsafe {
		o = append(o, html.WithUnsafe())
	}
	if c.XHTML {
		o = append(o, html.WithXHTML())
	}
	if c.HardWraps {
		o = append(o, html.WithHardWraps())
	}
	if c.Footnote && c.FnPrefix == 4 {
		o = append(o, extension.WithFootnoteIDPrefix(fnPrefixes[4]))
	}
	if c.Footnote && c.FnPrefix == 6 {
		o = append(o, extension.WithFootnoteIDPrefix(fnPrefixes[6]), extension.WithFootnoteIDPrefixFunction(FnPrefixFunc))
	}
	if c.Footnote && c.FnOpt == 2 {
		o = append(o, extension.WithFootnoteLinkTitle(`"<n ^^> & 'q'`), extension.WithFootnoteBacklinkTitle(`^%^^%%"&amp;`))
	}
	return o
}

// rchanOK: the extension renderers that consult the HTML switches themselves (task list <input>, footnote <hr>,
// the table's default alignment method) only learn of them through renderer options.
func (c Config) rchanOK() bool { return !c.HasTask() && !c.Footnote && !c.HasTable() }

// Fresh builds a brand-new instance.
func (c Config) Fresh() goldmark.Markdown {
	if c.RChan == 1 && c.rchanOK() {
		var ho []html.Option
		if c.Unsafe {
			ho = append(ho, html.WithUnsafe())
		}
		if c.XHTML {
			ho = append(ho, html.WithXHTML())
		}
		if c.HardWraps {
			ho = append(ho, html.WithHardWraps())
		}
		return goldmark.New(
			goldmark.WithRenderer(renderer.NewRenderer(renderer.WithNodeRenderers(util.Prioritized(html.NewRenderer(ho...), 1000)))),
			goldmark.WithExtensions(c.Extensions()...),
			goldmark.WithParserOptions(c.ParserOptions()...),
		)
	}
	return goldmark.New(
		goldmark.WithExtensions(c.Extensions()...),
		goldmark.WithParserOptions(c.ParserOptions()...),
		goldmark.WithRendererOptions(c.RendererOptions()...),
	)
}

var (
	mdCacheMu sync.Mutex
	mdCache   = map[Config]goldmark.Markdown{}
)

// MD returns a cached instance (long-lived per configuration; the cache is bounded).
func (c Config) MD() goldmark.Markdown {
	mdCacheMu.Lock()
	defer mdCacheMu.Unlock()
	if m, ok := mdCache[c]; ok {
		return m
	}
	if len(mdCache) >= 2048 {
		// the lattice has far more points than a process should keep instances for (an instance is ~70 KB):
		// start over; the representative points are re-created on demand
		mdCache = map[Config]goldmark.Markdown{}
	}
	m := c.Fresh()
	mdCache[c] = m
	return m
}

// Representative is the fixed list of configuration points the quick tiers
// always include.
var Representative = []Config{
	{},
	{Unsafe: true},
	{Unsafe: true, XHTML: true},
	{GFM: true},
	{GFM: true, Unsafe: true, XHTML: true, HardWraps: true},
	{DefList: true, Footnote: true, Typo: true},
	{GFM: true, DefList: true, Footnote: true, Typo: true, CJK: 1, AutoID: true, Attr: true},
	{GFM: true, DefList: true, Footnote: true, Typo: true, CJK: 1, AutoID: true, Attr: true, Unsafe: true, XHTML: true, HardWraps: true},
	{CJK: 1},
	{CJK: 3, HardWraps: true},
	{CJK: 5, GFM: true, Unsafe: true},
	{AutoID: true, Attr: true},
	{Linkify: true, Typo: true},
	{Table: true, TableAlign: 2, Attr: true},
	{Table: true, Strike: true, Task: true, Footnote: true, XHTML: true},
	{GFM: true, Footnote: true, FnPrefix: 2, Typo: true},
	{Table: true, Footnote: true, FnPrefix: 5, XHTML: true},
	{Typo: true, TypoOff: 2, Linkify: true},
	{Typo: true, TypoOff: 1, GFM: true, XHTML: true},
	{GFM: true, Footnote: true, FnPrefix: 4, DefList: true},
	{Footnote: true, FnOpt: 1, Table: true, Linkify: true, LinkProto: 2},
	{RChan: 1, XHTML: true, HardWraps: true},
	{RChan: 1, Unsafe: true, XHTML: true, Strike: true, DefList: true, Typo: true, CJK: 1, AutoID: true},
	{Footnote: true, FnOpt: 2, FnPrefix: 1, XHTML: true, Linkify: true, LinkProto: 1, Strike: true},
	{GFM: true, Footnote: true, FnPrefix: 6},
	{Linkify: true, LinkProto: 3, Strike: true, Typo: true},
}

// ConfigOpts restricts DrawConfig.
type ConfigOpts struct {
	SafeOnly  bool // never Unsafe
	NoCJK     bool
	PinAlign  bool // TableAlign ∈ {1,2} whenever a table is on
	NoAttr    bool
	ForceAttr bool
	ForceAuto bool
	OnlyRep   bool // only representative points
}

// DrawConfig draws a configuration: half of the time a representative
// point (filtered by opts), otherwise a random lattice point.
func DrawConfig(t *rapid.T, o ConfigOpts) Config {
	var c Config
	if o.OnlyRep || rapid.IntRange(0, 2).Draw(t, "cfgkind") == 0 {
		c = Representative[rapid.IntRange(0, len(Representative)-1).Draw(t, "cfgrep")]
	} else {
		bits := rapid.Uint32().Draw(t, "cfgbits")
		b := func(i uint) bool { return bits&(1<<i) != 0 }
		c = Config{
			GFM: b(0), Linkify: b(1) && !b(0), Table: b(2) && !b(0), Strike: b(3) && !b(0), Task: b(4) && !b(0),
			DefList: b(5), Footnote: b(6), Typo: b(7),
			AutoID: b(8), Attr: b(9), Unsafe: b(10), XHTML: b(11), HardWraps: b(12),
		}
		if b(13) {
			c.CJK = 1 + int((bits>>14)%5)
		}
		if b(17) {
			c.TableAlign = int((bits >> 18) % 4)
		}
		if b(20) && b(21) {
			c.FnPrefix = 1 + int((bits>>22)%6)
		}
		if b(25) && b(26) {
			c.TypoOff = 1 + int((bits>>27)%4)
		}
		if b(29) && b(30) {
			c.FnOpt = 1 + int((bits>>31)%2)
		}
		if b(1) && b(16) {
			c.LinkProto = 1 + int((bits>>24)%3)
		}
		if b(19) && b(23) {
			c.RChan = 1
		}
	}
	if o.SafeOnly {
		c.Unsafe = false
	}
	if o.NoCJK {
		c.CJK = 0
	}
	if o.NoAttr {
		c.Attr = false
	}
	if o.ForceAttr {
		c.Attr = true
	}
	if o.ForceAuto {
		c.AutoID = true
	}
	if !c.Footnote {
		c.FnPrefix, c.FnOpt = 0, 0
	}
	if !c.Linkify || c.GFM {
		c.LinkProto = 0
	}
	if !c.rchanOK() {
		c.RChan = 0
	}
	if !c.Typo {
		c.TypoOff = 0
	}
	if !c.HasTable() {
		c.TableAlign = 0
	} else if o.PinAlign && (c.TableAlign == 0 || c.TableAlign == 3) {
		c.TableAlign = 1 + int(boolInt(c.XHTML != c.HardWraps))
	}
	return c
}

func boolInt(b bool) int {
	if b {
		return 1
	}
	return 0
}

// AllExtensionKinds lists node kinds that can legally appear for a config;
// used by the AST validator.
func SortedNames(m map[string]bool) []string {
	var s []string
	for k := range m {
		s = append(s, k)
	}
	sort.Strings(s)
	return s
}

// ConfigFromBits decodes a configuration from fuzz input bytes.
func ConfigFromBits(bits uint32) Config {
	b := func(i uint) bool { return bits&(1<<i) != 0 }
	c := Config{
		GFM: b(0), DefList: b(1), Footnote: b(2), Typo: b(3),
		AutoID: b(4), Attr: b(5), Unsafe: b(6), XHTML: b(7), HardWraps: b(8),
	}
	if b(9) {
		c.CJK = 1 + int((bits>>10)%5)
	}
	if !c.GFM {
		c.Linkify, c.Table, c.Strike, c.Task = b(13), b(14), b(15), b(12)
	}
	return c
}
