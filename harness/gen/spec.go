package gen

import (
	"bytes"
	"encoding/json"
	"os"
	"path/filepath"
	"strings"
	"sync"

	"pgregory.net/rapid"

	"verif/kit"
)

// SpecExample is one record of _test/spec.json.
type SpecExample struct {
	Markdown string `json:"markdown"`
	HTML     string `json:"html"`
	Example  int    `json:"example"`
	Section  string `json:"section"`
}

var (
	specOnce sync.Once
	specEx   []SpecExample
	extraMD  [][]byte
)

func loadSpec() {
	data, err := os.ReadFile(filepath.Join(kit.RepoDir(), "_test", "spec.json"))
	if err == nil {
		_ = json.Unmarshal(data, &specEx)
	}
	for _, pat := range []string{"_test/*.txt", "extension/_test/*.txt"} {
		files, _ := filepath.Glob(filepath.Join(kit.RepoDir(), pat))
		for _, f := range files {
			b, err := os.ReadFile(f)
			if err != nil {
				continue
			}
			for _, cs := range strings.Split(string(b), "//= = = = = = = = = = = = = = = = = = = = = = = =//") {
				parts := strings.Split(cs, "//- - - - - - - - -//")
				if len(parts) >= 3 {
					md := strings.TrimPrefix(parts[1], "\n")
					if md != "" && len(md) < 4000 {
						extraMD = append(extraMD, []byte(md))
					}
				}
			}
		}
	}
}

// Spec returns the spec examples (empty if the file is missing).
func Spec() []SpecExample {
	specOnce.Do(loadSpec)
	return specEx
}

// Extra returns Markdown inputs of the repository's other test files.
func Extra() [][]byte {
	specOnce.Do(loadSpec)
	return extraMD
}

// SeedDoc draws a document from the repository's own test inputs.
func SeedDoc(t *rapid.T, label string) []byte {
	sp, ex := Spec(), Extra()
	n := len(sp) + len(ex)
	if n == 0 {
		return []byte("*a*\n")
	}
	i := rapid.IntRange(0, n-1).Draw(t, label)
	if i < len(sp) {
		return []byte(sp[i].Markdown)
	}
	return append([]byte(nil), ex[i-len(sp)]...)
}

func splitLines(b []byte) [][]byte {
	return bytes.SplitAfter(b, []byte("\n"))
}

// Mutate applies 1..4 mutations to a seed document.
func Mutate(t *rapid.T, p *Profile, label string) []byte {
	doc := SeedDoc(t, label+"seed")
	nm := rapid.IntRange(1, 4).Draw(t, label+"nm")
	for m := 0; m < nm; m++ {
		lines := splitLines(doc)
		if len(lines) == 0 {
			lines = [][]byte{{}}
		}
		li := rapid.IntRange(0, len(lines)-1).Draw(t, label+"li")
		switch rapid.IntRange(0, 8).Draw(t, label+"op") {
		case 0: // delete a line
			lines = append(lines[:li:li], lines[li+1:]...)
		case 1: // duplicate a line
			lines = append(lines[:li+1:li+1], lines[li:]...)
		case 2: // swap with next
			if li+1 < len(lines) {
				lines[li], lines[li+1] = lines[li+1], lines[li]
			}
		case 3: // splice another example
			other := SeedDoc(t, label+"splice")
			lines = append(lines[:li:li], append([][]byte{other}, lines[li:]...)...)
		case 4: // insert a soup token at a byte position
			l := lines[li]
			pos := rapid.IntRange(0, len(l)).Draw(t, label+"pos")
			tok := Soup(t, p, 2, label+"tok")
			nl := append(append(append([]byte{}, l[:pos]...), tok...), l[pos:]...)
			lines[li] = nl
		case 5: // re-indent a line
			ind := rapid.SampledFrom(lineIndents).Draw(t, label+"ind")
			lines[li] = append([]byte(ind), bytes.TrimLeft(lines[li], " \t")...)
		case 6: // LF -> CRLF on that line
			lines[li] = bytes.Replace(lines[li], []byte("\n"), []byte("\r\n"), 1)
		case 7: // delete a byte
			l := lines[li]
			if len(l) > 0 {
				pos := rapid.IntRange(0, len(l)-1).Draw(t, label+"pos")
				lines[li] = append(append([]byte{}, l[:pos]...), l[pos+1:]...)
			}
		case 8: // prefix a container marker
			mk := rapid.SampledFrom(lineContainers).Draw(t, label+"mk")
			lines[li] = append([]byte(mk), lines[li]...)
		}
		doc = bytes.Join(lines, nil)
	}
	return p.Repair(doc)
}

var bracketLeaves = []string{"<http://a/\"o=\"1>", "<x&y@a.bc>", "<http://a/?a&b>", "&quot;", "\"", "a", "b c", "x", "`c`", "\\]", "\\[", "<b>", "&amp;", "a\nb", "<http://a.b>", "![i](u)", "[^1]", "*", "_", "~", "]", "[", "(", ")", ""}

// Brackets draws nested link / image / emphasis / code / strikethrough
// structures (depth <= 5): the shapes that exercise bracket bookkeeping.
func Brackets(t *rapid.T, depth int, label string) string {
	if depth <= 0 || rapid.IntRange(0, 4).Draw(t, label+"leaf") == 0 {
		return rapid.SampledFrom(bracketLeaves).Draw(t, label+"l")
	}
	inner := Brackets(t, depth-1, label)
	if rapid.IntRange(0, 3).Draw(t, label+"two") == 0 {
		inner += " " + Brackets(t, depth-1, label)
	}
	switch rapid.IntRange(0, 15).Draw(t, label+"w") {
	case 0, 1:
		return "[" + inner + "](u)"
	case 2, 3:
		return "![" + inner + "](u)"
	case 4:
		return "[" + inner + "][r]"
	case 5:
		return "![" + inner + "][r]"
	case 6:
		return "[" + inner + "]"
	case 7:
		return "*" + inner + "*"
	case 8:
		return "**" + inner + "**"
	case 9:
		return "_" + inner + "_"
	case 10:
		return "~~" + inner + "~~"
	case 11:
		return "`" + inner + "`"
	case 12:
		return "[" + inner + "](<u v> \"t\")"
	case 13:
		return "[" + inner + "][]"
	case 14:
		return "<a href=\"" + inner + "\">"
	default:
		return " " + inner + " "
	}
}

// BracketDoc wraps nested bracket structures into a small document with
// matching definitions.
func BracketDoc(t *rapid.T, p *Profile, label string) []byte {
	n := rapid.IntRange(1, 3).Draw(t, label+"n")
	var b []byte
	for i := 0; i < n; i++ {
		b = append(b, rapid.SampledFrom([]string{"", "", "# ", "> ", "- ", "|a|\n|-|\n|"}).Draw(t, label+"pre")...)
		b = append(b, Brackets(t, rapid.IntRange(1, 5).Draw(t, label+"d"), label)...)
		b = append(b, rapid.SampledFrom([]string{"\n", "\n\n", "|\n", "\n\n[r]: /u\n\n", "  \n"}).Draw(t, label+"post")...)
	}
	if rapid.Bool().Draw(t, label+"def") {
		b = append(b, "\n[r]: /u 't'\n"...)
	}
	return p.Repair(b)
}

// FootnoteDoc: 2..5 footnotes referenced in order and defined in a drawn
// permutation (the footnote list is sorted after parsing), with a few extras.
func FootnoteDoc(t *rapid.T, p *Profile, label string) []byte {
	n := rapid.IntRange(2, 5).Draw(t, label+"n")
	labels := []string{"x", "y", "z", "1", "w"}[:n]
	var b []byte
	for _, l := range labels {
		b = append(b, rapid.SampledFrom([]string{"a", "*b*", "> c", "- d", "# e", "|f|\n|-|\n|g"}).Draw(t, label+"ctx")...)
		b = append(b, "[^"+l+"] "...)
		if rapid.IntRange(0, 3).Draw(t, label+"again") == 0 {
			b = append(b, "[^"+labels[0]+"]"...)
		}
		b = append(b, rapid.SampledFrom([]string{" ", "\n", "\n\n"}).Draw(t, label+"sep")...)
	}
	b = append(b, "\n\n"...)
	for _, l := range rapid.Permutation(labels).Draw(t, label+"perm") {
		b = append(b, "[^"+l+"]: "+rapid.SampledFrom([]string{"note", "note\n\n    more", "n [^x]", "`c`"}).Draw(t, label+"body")+"\n"...)
		if rapid.Bool().Draw(t, label+"blank") {
			b = append(b, '\n')
		}
	}
	return p.Repair(b)
}

// LongDoc repeats a small unit many times (optionally inside a container):
// the documents that cross size thresholds (line counts, nesting x lines,
// buffer capacities) which short soup never reaches.
func LongDoc(t *rapid.T, p *Profile, label string) []byte {
	units := []string{"- a\n", "- a\n  - b\n", "1. a\n", "> a\n", "> - a\n", "a\n", "a\n\n", "- a\n\n", "* a\n* b\n", "- a\n  b\n", "  - c\n", "| a | b |\n", "# h\n", "- [ ] t\n", "    code\n", "[r]: /u\n", "x[^1]\n", "`c` *e*\n", "\n", "- a\n    - b\n        - c\n", "> > a\n", "- > a\n", "a  \n", ": d\n"}
	n := rapid.IntRange(1, 3).Draw(t, label+"nu")
	var unit []byte
	for i := 0; i < n; i++ {
		unit = append(unit, rapid.SampledFrom(units).Draw(t, label+"u")...)
	}
	k := rapid.IntRange(20, 300).Draw(t, label+"k")
	if k*len(unit) > 6000 {
		k = 6000 / len(unit)
	}
	doc := bytes.Repeat(unit, k)
	if rapid.IntRange(0, 2).Draw(t, label+"head") == 0 {
		doc = append([]byte(rapid.SampledFrom([]string{"intro\n\n", "|a|b|\n|-|-|\n", "- first\n", "> q\n", "```\nc\n```\n"}).Draw(t, label+"h")), doc...)
	}
	if rapid.IntRange(0, 2).Draw(t, label+"tail") == 0 {
		doc = append(doc, rapid.SampledFrom([]string{"\nend\n", "- last\n\n  para\n", "\n\n\nx\n", "  - deep\n"}).Draw(t, label+"tl")...)
	}
	return p.Repair(doc)
}

// Doc draws a document from the union of the shared generators.
// maxTok bounds the soup length.
func Doc(t *rapid.T, p *Profile, maxTok int, label string) ([]byte, string) {
	doc, class := docKind(t, p, maxTok, label)
	if rapid.IntRange(0, 5).Draw(t, label+"bytemut") == 0 {
		return ByteMutate(t, p, doc, label+"bm"), class + "+bytes"
	}
	return doc, class
}

var hostileBytes = []byte("\xc3\xe3\xf0\x80\xbf\xff\xc2\xf4\x00\r\t \\`*_[]()<>\"'&#-~:|\n!=+.;/@^{}0a")

// ByteMutate applies 1-3 byte-level edits (insert / replace / delete a byte, cut the document short, drop the
// final line ending) to a structured document, the way a byte-level fuzzer would: hostile bytes end up at the
// edges of constructs (last byte of a destination, inside a scheme, right after a marker), documents end in
// the middle of a construct or without a final newline. The profile is re-enforced afterwards.
func ByteMutate(t *rapid.T, p *Profile, doc []byte, label string) []byte {
	out := append([]byte(nil), doc...)
	n := rapid.IntRange(1, 3).Draw(t, label+"n")
	for i := 0; i < n; i++ {
		if len(out) == 0 {
			out = append(out, hostileBytes[rapid.IntRange(0, len(hostileBytes)-1).Draw(t, label+"b")])
			continue
		}
		pos := rapid.IntRange(0, len(out)).Draw(t, label+"pos")
		switch rapid.IntRange(0, 6).Draw(t, label+"op") {
		case 0, 1, 2: // insert
			b := hostileBytes[rapid.IntRange(0, len(hostileBytes)-1).Draw(t, label+"b")]
			out = append(out[:pos:pos], append([]byte{b}, out[pos:]...)...)
		case 3: // replace
			if pos < len(out) {
				out[pos] = hostileBytes[rapid.IntRange(0, len(hostileBytes)-1).Draw(t, label+"b")]
			}
		case 4: // delete
			if pos < len(out) {
				out = append(out[:pos:pos], out[pos+1:]...)
			}
		case 5: // cut short
			out = out[:pos]
		default: // drop the final line ending(s)
			out = bytes.TrimRight(out, "\r\n")
		}
	}
	return p.Repair(out)
}

func docKind(t *rapid.T, p *Profile, maxTok int, label string) ([]byte, string) {
	switch k := rapid.IntRange(0, 13).Draw(t, label+"kind"); {
	case k == 13:
		switch rapid.IntRange(0, 5).Draw(t, label+"nl") { // rare: these documents are 1-8 KiB each
		case 0, 1:
			return p.Repair(NearLimitDoc(t, label+"near")), "near-limit"
		case 2:
			return p.Repair(PathologicalDoc(t, p, label+"patho")), "pathological"
		}
		return Soup(t, p, maxTok, label+"soup"), "soup"
	case k == 12:
		return LongDoc(t, p, label+"long"), "long"
	case k == 11:
		return FootnoteDoc(t, p, label+"fn"), "footnotes"
	case k <= 3:
		return Soup(t, p, maxTok, label+"soup"), "soup"
	case k <= 6:
		return Lines(t, p, 1+maxTok/4, label+"lines"), "lines"
	case k == 7:
		return p.Repair(SeedDoc(t, label+"seed")), "seed"
	case k == 8:
		return BracketDoc(t, p, label+"br"), "brackets"
	default:
		return Mutate(t, p, label+"mut"), "mutate"
	}
}
