package gen

import (
	"bytes"
	"encoding/json"
	"os"
	"path/filepath"
	"strings"
	"sync"

	"pgregory.net/rapid"

	"verif/kit"
)

// SpecExample is one record of _test/spec.json.
type SpecExample struct {
	Markdown string `json:"markdown"`
	HTML     string `json:"html"`
	Example  int    `json:"example"`
	Section  string `json:"section"`
}

var (
	specOnce sync.Once
	specEx   []SpecExample
	extraMD  [][]byte
)

func loadSpec() {
	data, err := os.ReadFile(filepath.Join(kit.RepoDir(), "_test", "spec.json"))
	if err == nil {
		_ = json.Unmarshal(data, &specEx)
	}
	for _, pat := range []string{"_test/*.txt", "extension/_test/*.txt"} {
		files, _ := filepath.Glob(filepath.Join(kit.RepoDir(), pat))
		for _, f := range files {
			b, err := os.ReadFile(f)
			if err != nil {
				continue
			}
			for _, cs := range strings.Split(string(b), "//= = = = = = = = = = = = = = = = = = = = = = = =//") {
				parts := strings.Split(cs, "//- - - - - - - - -//")
				if len(parts) >= 3 {
					md := strings.TrimPrefix(parts[1], "\n")
					if md != "" && len(md) < 4000 {
						extraMD = append(extraMD, []byte(md))
					}
				}
			}
		}
	}
}

// Spec returns the spec examples (empty if the file is missing).
func Spec() []SpecExample {
	specOnce.Do(loadSpec)
	return specEx
}

// Extra returns Markdown inputs of the repository's other test files.
func Extra() [][]byte {
	specOnce.Do(loadSpec)
	return extraMD
}

// SeedDoc draws a document from the repository's own test inputs.
func SeedDoc(t *rapid.T, label string) []byte {
	sp, ex := Spec(), Extra()
	n := len(sp) + len(ex)
	if n == 0 {
		return []byte("*a*\n")
	}
	i := rapid.IntRange(0, n-1).Draw(t, label)
	if i < len(sp) {
		return []byte(sp[i].Markdown)
	}
	return append([]byte(nil), ex[i-len(sp)]...)
}

func splitLines(b []byte) [][]byte {
	return bytes.SplitAfter(b, []byte("\n"))
}

// Mutate applies 1..4 mutations to a seed document.
func Mutate(t *rapid.T, p *Profile, label string) []byte {
	doc := SeedDoc(t, label+"seed")
	nm := rapid.IntRange(1, 4).Draw(t, label+"nm")
	for m := 0; m < nm; m++ {
		lines := splitLines(doc)
		if len(lines) == 0 {
			lines = [][]byte{{}}
		}
		li := rapid.IntRange(0, len(lines)-1).Draw(t, label+"li")
		switch rapid.IntRange(0, 8).Draw(t, label+"op") {
		case 0: // delete a line
			lines = append(lines[:li:li], lines[li+1:]...)
		case 1: // duplicate a line
			lines = append(lines[:li+1:li+1], lines[li:]...)
		case 2: // swap with next
			if li+1 < len(lines) {
				lines[li], lines[li+1] = lines[li+1], lines[li]
			}
		case 3: // splice another example
			other := SeedDoc(t, label+"splice")
			lines = append(lines[:li:li], append([][]byte{other}, lines[li:]...)...)
		case 4: // insert a soup token at a byte position
			l := lines[li]
			pos := rapid.IntRange(0, len(l)).Draw(t, label+"pos")
			tok := Soup(t, p, 2, label+"tok")
			nl := append(append(append([]byte{}, l[:pos]...), tok...), l[pos:]...)
			lines[li] = nl
		case 5: // re-indent a line
			ind := rapid.SampledFrom(lineIndents).Draw(t, label+"ind")
			lines[li] = append([]byte(ind), bytes.TrimLeft(lines[li], " \t")...)
		case 6: // LF -> CRLF on that line
			lines[li] = bytes.Replace(lines[li], []byte("\n"), []byte("\r\n"), 1)
		case 7: // delete a byte
			l := lines[li]
			if len(l) > 0 {
				pos := rapid.IntRange(0, len(l)-1).Draw(t, label+"pos")
				lines[li] = append(append([]byte{}, l[:pos]...), l[pos+1:]...)
			}
		case 8: // prefix a container marker
			mk := rapid.SampledFrom(lineContainers).Draw(t, label+"mk")
			lines[li] = append([]byte(mk), lines[li]...)
		}
		doc = bytes.Join(lines, nil)
	}
	return p.Repair(doc)
}

// Doc draws a document from the union of the shared generators.
// maxTok bounds the soup length.
func Doc(t *rapid.T, p *Profile, maxTok int, label string) ([]byte, string) {
	switch k := rapid.IntRange(0, 9).Draw(t, label+"kind"); {
	case k <= 3:
		return Soup(t, p, maxTok, label+"soup"), "soup"
	case k <= 6:
		return Lines(t, p, 1+maxTok/4, label+"lines"), "lines"
	case k == 7:
		return p.Repair(SeedDoc(t, label+"seed")), "seed"
	default:
		return Mutate(t, p, label+"mut"), "mutate"
	}
}
