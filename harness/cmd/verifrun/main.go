// verifrun is the driver: it builds a property's check package against the
// current /repo working tree, runs the replay tier, the generated tiers (as
// shards of the test binary) and, for some properties in the thorough tier,
// a bounded native fuzz campaign; merges the shards' evidence; prints
// VIOLATION / KNOWN-FINDING lines and sets the exit status
// (0 held, 1 violation, 2 inconclusive / harness problem).
package main

import (
	"bufio"
	"bytes"
	"context"
	"encoding/json"
	"fmt"
	"os"
	"os/exec"
	"path/filepath"
	"regexp"
	"runtime"
	"sort"
	"strconv"
	"strings"
	"sync"
	"time"
)

type fuzzSpec struct {
	Target  string
	Seconds int
}

type propSpec struct {
	Pkg             string
	Level           string
	QuickShards     int
	ThoroughShards  int
	Race            bool
	Fuzz            []fuzzSpec // thorough only
	HangIsViolation bool
	QuickTimeout    time.Duration
	ThoroughTimeout time.Duration
}

func spec(id string) (propSpec, bool) {
	d := propSpec{Pkg: "./checks/" + strings.ToLower(id), Level: "exploration", QuickShards: 4, ThoroughShards: 16,
		QuickTimeout: 8 * time.Minute, ThoroughTimeout: 90 * time.Minute}
	switch id {
	case "C01":
		d.Fuzz = []fuzzSpec{{"FuzzConvert", 180}}
		d.HangIsViolation = true
	case "C03":
		d.Fuzz = []fuzzSpec{{"FuzzSafe", 150}}
	case "C04":
		d.Fuzz = []fuzzSpec{{"FuzzURL", 120}}
	case "C05":
		d.Fuzz = []fuzzSpec{{"FuzzAST", 150}}
	case "C07":
		d.Race = true
		d.QuickShards = 4
		d.ThoroughShards = 8
	case "C12":
		d.Fuzz = []fuzzSpec{{"FuzzReadOnly", 120}}
	case "C14":
		d.Level = "fault_enumeration"
		d.HangIsViolation = true // Convert must return the writer's error; not returning at all is not returning it
	case "C13", "C18", "C19", "C20":
		// the property states what every call (sequence) yields; a call that reproducibly never returns does not
		// yield it, and no other property covers these APIs (a conversion that hangs is C01's)
		d.HangIsViolation = true
	case "C02", "C06", "C08", "C09", "C10", "C11", "C15", "C16", "C17":
	default:
		return d, false
	}
	return d, true
}

var raceMode bool
var replayBaseDir string

var (
	verifDir   = "/verif"
	harnessDir = "/verif/harness"
	buildDir   = "/verif/.build"
)

func goEnv() []string {
	env := os.Environ()
	set := func(k, v string) {
		for i, e := range env {
			if strings.HasPrefix(e, k+"=") {
				env[i] = k + "=" + v
				return
			}
		}
		env = append(env, k+"="+v)
	}
	set("GOFLAGS", "-mod=mod")
	set("GOPROXY", "off")
	set("GOSUMDB", "off")
	set("GOTOOLCHAIN", "local")
	return env
}

func fatal2(format string, args ...any) {
	fmt.Printf("INCONCLUSIVE: "+format+"\n", args...)
	os.Exit(2)
}

func main() {
	if v := os.Getenv("VERIF_DIR"); v != "" {
		verifDir = v
		harnessDir = filepath.Join(v, "harness")
		buildDir = filepath.Join(v, ".build")
	}
	args := os.Args[1:]
	if len(args) == 2 && args[0] == "--replay" {
		os.Exit(replay(args[1]))
	}
	if len(args) == 1 && args[0] == "build-all" {
		os.Exit(buildAll())
	}
	if len(args) != 2 {
		fmt.Println("usage: verifrun <ID> <quick|thorough> | --replay <file> | build-all")
		os.Exit(2)
	}
	id, tier := strings.ToUpper(args[0]), args[1]
	if tier != "quick" && tier != "thorough" {
		fatal2("unknown tier %q", tier)
	}
	os.Exit(run(id, tier))
}

func modfileArgs() []string {
	repo := os.Getenv("VERIF_REPO")
	if repo == "" || repo == "/repo" {
		return nil
	}
	// alternate go.mod whose replace points at the scratch copy
	data, err := os.ReadFile(filepath.Join(harnessDir, "go.mod"))
	if err != nil {
		fatal2("read go.mod: %v", err)
	}
	alt := strings.Replace(string(data), "=> /repo", "=> "+repo, 1)
	_ = os.MkdirAll(buildDir, 0o755)
	name := filepath.Join(buildDir, "alt-"+strconv.FormatUint(uint64(hashStr(repo)), 16)+".mod")
	_ = os.WriteFile(name, []byte(alt), 0o644)
	if sum, err := os.ReadFile(filepath.Join(harnessDir, "go.sum")); err == nil {
		_ = os.WriteFile(strings.TrimSuffix(name, ".mod")+".sum", sum, 0o644)
	}
	return []string{"-modfile=" + name}
}

func hashStr(s string) uint32 {
	var h uint32 = 2166136261
	for i := 0; i < len(s); i++ {
		h ^= uint32(s[i])
		h *= 16777619
	}
	return h
}

func binPath(id string, fuzz bool) string {
	suffix := ""
	if fuzz {
		suffix = "-fuzz"
	}
	if r := os.Getenv("VERIF_REPO"); r != "" && r != "/repo" {
		suffix += "-" + strconv.FormatUint(uint64(hashStr(r)), 16)
	}
	return filepath.Join(buildDir, strings.ToLower(id)+suffix+".test")
}

func build(id string, ps propSpec, fuzz bool) (string, error) {
	_ = os.MkdirAll(buildDir, 0o755)
	out := binPath(id, fuzz)
	args := []string{"test", "-c", "-vet=off", "-o", out}
	args = append(args, modfileArgs()...)
	if ps.Race {
		args = append(args, "-race")
	}
	if fuzz {
		args = append(args, "-fuzz=Fuzz")
	}
	args = append(args, ps.Pkg)
	cmd := exec.Command("go", args...)
	cmd.Dir = harnessDir
	cmd.Env = goEnv()
	var buf bytes.Buffer
	cmd.Stdout, cmd.Stderr = &buf, &buf
	if err := cmd.Run(); err != nil {
		return "", fmt.Errorf("build failed: %v\n%s", err, buf.String())
	}
	return out, nil
}

func buildAll() int {
	rc := 0
	for i := 1; i <= 20; i++ {
		id := fmt.Sprintf("C%02d", i)
		ps, ok := spec(id)
		if !ok {
			continue
		}
		if _, err := os.Stat(filepath.Join(harnessDir, ps.Pkg)); err != nil {
			continue
		}
		if _, err := build(id, ps, false); err != nil {
			fmt.Printf("%s: %v\n", id, err)
			rc = 2
		} else {
			fmt.Printf("%s: built\n", id)
		}
	}
	return rc
}

type shardResult struct {
	idx      int
	exit     int
	timedOut bool
	log      string
}

func runShard(ctx context.Context, bin, pkgDir, id, tier string, seed int64, idx, n int, outDir string, timeout time.Duration, extra []string) shardResult {
	logPath := filepath.Join(outDir, fmt.Sprintf("shard-%d.log", idx))
	lf, _ := os.Create(logPath)
	defer lf.Close()
	args := []string{"-test.run", "^Test", "-test.count=1", "-test.timeout", (timeout + time.Minute).String()}
	args = append(args, extra...)
	cctx, cancel := context.WithTimeout(ctx, timeout+2*time.Minute)
	defer cancel()
	cmd := exec.CommandContext(cctx, bin, args...)
	cmd.Dir = pkgDir
	cmd.Stdout, cmd.Stderr = lf, lf
	cmd.Env = append(goEnv(),
		"VERIF_TIER="+tier, "VERIF_SEED="+strconv.FormatInt(seed, 10),
		"VERIF_SHARD="+strconv.Itoa(idx), "VERIF_NSHARDS="+strconv.Itoa(n),
		"VERIF_OUT="+filepath.Join(outDir, fmt.Sprintf("part-%d.json", idx)),
		"VERIF_DIR="+verifDir, "VERIF_BUDGET_S="+strconv.Itoa(int(timeout.Seconds())), "VERIF_REPLAY_DIR="+replayBaseDir)
	if os.Getenv("GOMEMLIMIT") == "" {
		// a soft limit per shard: deep-nesting documents make single parses allocate hundreds of megabytes of
		// short-lived memory; without a limit the heap of each of 16 shards floats at twice that
		cmd.Env = append(cmd.Env, "GOMEMLIMIT=1500MiB")
	}
	if raceMode {
		cmd.Env = append(cmd.Env, "GORACE=halt_on_error=1 exitcode=66", "VERIF_SAVE_CURRENT=1")
	}
	err := cmd.Run()
	res := shardResult{idx: idx, log: logPath}
	if cctx.Err() == context.DeadlineExceeded {
		res.timedOut = true
		res.exit = -1
		return res
	}
	if err != nil {
		if ee, ok := err.(*exec.ExitError); ok {
			res.exit = ee.ExitCode()
		} else {
			res.exit = -2
		}
	}
	return res
}

type partial struct {
	Property  string           `json:"property"`
	Shard     int              `json:"shard"`
	Evals     int64            `json:"evals"`
	Distinct  []uint64         `json:"distinct"`
	Saturated bool             `json:"saturated"`
	Classes   map[string]int64 `json:"classes"`
	Excluded  map[string]int64 `json:"excluded"`
	Samples   []any            `json:"samples"`
	Notes     map[string]any   `json:"notes"`
}

var (
	reViol  = regexp.MustCompile(`VERIF-VIOLATION property=(\S+) replay=(\S+)`)
	reKnown = regexp.MustCompile(`^\s*(KNOWN-FINDING: .*)$`)
	reNote  = regexp.MustCompile(`^\s*(NOTE: .*)$`)
	reHang  = regexp.MustCompile(`HANG-CANDIDATE property=(\S+) file=(\S+)`)
	reHErr  = regexp.MustCompile(`HARNESS-ERROR (.*)$`)
	reExecs = regexp.MustCompile(`execs: (\d+)`)
)

func tail(path string, n int) string {
	data, err := os.ReadFile(path)
	if err != nil {
		return ""
	}
	lines := strings.Split(string(data), "\n")
	if len(lines) > n {
		lines = lines[len(lines)-n:]
	}
	return strings.Join(lines, "\n")
}

func run(id, tier string) int {
	start := time.Now()
	ps, ok := spec(id)
	if !ok {
		fatal2("unknown property %s", id)
	}
	seed := int64(1)
	if v := os.Getenv("VERIF_SEED"); v != "" {
		if n, err := strconv.ParseInt(v, 10, 64); err == nil {
			seed = n
		}
	}
	bin, err := build(id, ps, false)
	if err != nil {
		fatal2("%s: %v", id, err)
	}
	raceMode = ps.Race
	pkgDir := filepath.Join(harnessDir, ps.Pkg)
	outDir := filepath.Join(buildDir, "out", id+"-"+tier)
	replayBase := filepath.Join(verifDir, "replays")
	evidenceDir := filepath.Join(verifDir, "evidence")
	if r := os.Getenv("VERIF_REPO"); r != "" && r != "/repo" {
		// sensitivity runs against a scratch copy never touch the registered evidence / replays
		h := strconv.FormatUint(uint64(hashStr(r)), 16)
		outDir = filepath.Join(buildDir, "mutant", h, "out", id+"-"+tier)
		replayBase = filepath.Join(buildDir, "mutant", h, "replays")
		evidenceDir = filepath.Join(buildDir, "mutant", h, "evidence")
	}
	replayBaseDir = replayBase
	_ = os.RemoveAll(outDir)
	_ = os.MkdirAll(outDir, 0o755)
	replayDir := filepath.Join(replayBase, id)
	_ = os.RemoveAll(replayDir)
	_ = os.MkdirAll(replayDir, 0o755)

	n := ps.QuickShards
	timeout := ps.QuickTimeout
	if tier == "thorough" {
		n = ps.ThoroughShards
		timeout = ps.ThoroughTimeout
	}
	if v := os.Getenv("VERIF_SHARDS"); v != "" {
		if k, err := strconv.Atoi(v); err == nil && k > 0 {
			n = k
		}
	}
	if c := runtime.NumCPU(); n > c {
		n = c
	}

	results := make([]shardResult, n)
	var wg sync.WaitGroup
	for i := 0; i < n; i++ {
		wg.Add(1)
		go func(i int) {
			defer wg.Done()
			results[i] = runShard(context.Background(), bin, pkgDir, id, tier, seed, i, n, outDir, timeout, nil)
		}(i)
	}
	wg.Wait()

	violations := map[string]bool{}
	var known, notes, herrs []string
	seenKnown := map[string]bool{}
	inconclusive := []string{}
	for _, r := range results {
		f, err := os.Open(r.log)
		if err == nil {
			sc := bufio.NewScanner(f)
			sc.Buffer(make([]byte, 1<<20), 1<<26)
			for sc.Scan() {
				line := sc.Text()
				if m := reViol.FindStringSubmatch(line); m != nil {
					violations[m[2]] = true
				}
				if m := reKnown.FindStringSubmatch(line); m != nil && !seenKnown[m[1]] {
					seenKnown[m[1]] = true
					known = append(known, m[1])
				}
				if m := reNote.FindStringSubmatch(line); m != nil {
					notes = append(notes, m[1])
				}
				if m := reHErr.FindStringSubmatch(line); m != nil {
					herrs = append(herrs, m[1])
				}
				if m := reHang.FindStringSubmatch(line); m != nil {
					// isolated re-run before anything is concluded
					if hangReproduces(bin, pkgDir, m[2]) {
						if ps.HangIsViolation {
							final := filepath.Join(replayDir, fmt.Sprintf("hang-%d.json", r.idx))
							_ = os.Rename(m[2], final)
							violations[final] = true
						} else {
							inconclusive = append(inconclusive, "a case does not terminate (reproduced in isolation): "+m[2])
						}
					} else {
						notes = append(notes, "NOTE: a case was slow under load but terminates in isolation: "+m[2])
						_ = os.Remove(m[2])
					}
				}
			}
			f.Close()
		}
		if r.timedOut {
			inconclusive = append(inconclusive, fmt.Sprintf("shard %d exceeded its time budget", r.idx))
		}
		if r.exit == 66 {
			// the race detector halted the shard: the case that was running is the replay
			cur := filepath.Join(replayDir, fmt.Sprintf("current-%d.json", r.idx))
			final := filepath.Join(replayDir, fmt.Sprintf("race-%d.json", r.idx))
			report := raceReport(r.log)
			if data, err := os.ReadFile(cur); err == nil {
				var m map[string]any
				if json.Unmarshal(data, &m) == nil {
					m["error"] = "data race reported by the Go race detector:\n" + report
					data, _ = json.MarshalIndent(m, "", " ")
				}
				_ = os.WriteFile(final, data, 0o644)
				_ = os.Remove(cur)
				violations[final] = true
			} else {
				inconclusive = append(inconclusive, "race detector report outside any case:\n"+report)
			}
		}
	}

	// native fuzz campaigns (thorough only)
	var fuzzExecs int64
	var fuzzNotes []string
	if tier == "thorough" && len(ps.Fuzz) > 0 && os.Getenv("VERIF_NOFUZZ") == "" {
		fbin, err := build(id, ps, true)
		if err != nil {
			inconclusive = append(inconclusive, "fuzz build: "+err.Error())
		} else {
			for _, fz := range ps.Fuzz {
				ex, v, note := runFuzz(fbin, pkgDir, id, fz, outDir, replayDir)
				fuzzExecs += ex
				fuzzNotes = append(fuzzNotes, note)
				for _, p := range v {
					violations[p] = true
				}
			}
			_ = os.Remove(fbin)
		}
	}

	// replay files present but not mentioned (e.g. process died right after writing)
	files, _ := filepath.Glob(filepath.Join(replayDir, "*.json"))
	for _, f := range files {
		if strings.Contains(filepath.Base(f), "hang-candidate") || strings.HasPrefix(filepath.Base(f), "current-") {
			continue
		}
		violations[f] = true
	}

	// a shard that failed without leaving a violation is a harness problem
	for _, r := range results {
		if r.exit != 0 && !r.timedOut && r.exit != 3 && r.exit != 66 {
			has := false
			data, _ := os.ReadFile(r.log)
			if reViol.Match(data) {
				has = true
			}
			if !has {
				inconclusive = append(inconclusive, fmt.Sprintf("shard %d exited with status %d without reporting a violation:\n%s", r.idx, r.exit, tail(r.log, 40)))
			}
		}
	}
	for _, h := range herrs {
		inconclusive = append(inconclusive, "harness self-check: "+h)
	}

	// merge evidence
	ev := merge(id, tier, seed, ps, outDir, n)
	cov := ev["coverage"].(map[string]any)
	if fuzzExecs > 0 {
		cov["evaluations"] = cov["evaluations"].(int64) + fuzzExecs
		cov["native_fuzz_execs"] = fuzzExecs
		cov["native_fuzz"] = fuzzNotes
	}
	ev["wall_s"] = time.Since(start).Seconds()
	ev["violations"] = len(violations)
	if len(known) > 0 {
		cov["known_findings_reported"] = known
	}
	if len(notes) > 0 {
		cov["notes_from_run"] = notes
	}
	if len(inconclusive) > 0 {
		cov["inconclusive"] = inconclusive
	}
	data, _ := json.MarshalIndent(ev, "", " ")
	_ = os.MkdirAll(evidenceDir, 0o755)
	if err := os.WriteFile(filepath.Join(evidenceDir, id+".json"), data, 0o644); err != nil {
		inconclusive = append(inconclusive, "cannot write evidence: "+err.Error())
	}

	for _, k := range known {
		fmt.Println(k)
	}
	for _, s := range notes {
		fmt.Println(s)
	}
	if len(violations) > 0 {
		var vs []string
		for v := range violations {
			vs = append(vs, v)
		}
		sort.Strings(vs)
		for _, v := range vs {
			fmt.Printf("VIOLATION property=%s replay=%s\n", id, v)
			if c, err := os.ReadFile(v); err == nil {
				var m map[string]any
				if json.Unmarshal(c, &m) == nil {
					if e, ok := m["error"].(string); ok {
						if len(e) > 1500 {
							e = e[:1500] + "..."
						}
						fmt.Printf("  check=%v config=%v\n  %s\n", m["check"], m["config"], strings.ReplaceAll(e, "\n", "\n  "))
					}
					if p, ok := m["pretty"].(map[string]any); ok {
						for k, v := range p {
							s := fmt.Sprint(v)
							if len(s) > 600 {
								s = s[:600] + "..."
							}
							fmt.Printf("  %s=%s\n", k, s)
						}
					}
				}
			}
		}
		return 1
	}
	if len(inconclusive) > 0 {
		for _, s := range inconclusive {
			fmt.Printf("INCONCLUSIVE: %s\n", s)
		}
		return 2
	}
	if cov["evaluations"].(int64) < 1 || cov["distinct_nontrivial"].(int) < 2 {
		fmt.Printf("INCONCLUSIVE: too little explored (evaluations=%v distinct_nontrivial=%v)\n", cov["evaluations"], cov["distinct_nontrivial"])
		return 2
	}
	fmt.Printf("OK property=%s tier=%s seed=%d evaluations=%v distinct_nontrivial=%v wall=%.1fs\n", id, tier, seed, cov["evaluations"], cov["distinct_nontrivial"], time.Since(start).Seconds())
	return 0
}

func raceReport(logPath string) string {
	data, _ := os.ReadFile(logPath)
	i := bytes.Index(data, []byte("WARNING: DATA RACE"))
	if i < 0 {
		return tail(logPath, 30)
	}
	rep := data[i:]
	if len(rep) > 5000 {
		rep = rep[:5000]
	}
	return string(rep)
}

func hangReproduces(bin, pkgDir, file string) bool {
	ctx, cancel := context.WithTimeout(context.Background(), 120*time.Second)
	defer cancel()
	cmd := exec.CommandContext(ctx, bin, "-test.run", "^TestReplay$", "-test.count=1", "-test.timeout", "10m")
	cmd.Dir = pkgDir
	cmd.Env = append(goEnv(), "VERIF_REPLAY="+file, "VERIF_DIR="+verifDir)
	_ = cmd.Run()
	if ctx.Err() != context.DeadlineExceeded {
		return false
	}
	// killed after 120 s of wall clock: it only counts as non-termination when the process really computed
	// for most of that time (a starved process, a paused VM or a stepped clock is not a hang)
	if st := cmd.ProcessState; st != nil {
		return st.UserTime() > 60*time.Second
	}
	return false
}

func merge(id, tier string, seed int64, ps propSpec, outDir string, n int) map[string]any {
	var evals int64
	var allHashes []uint64
	classes := map[string]int64{}
	excluded := map[string]int64{}
	var samples []any
	notes := map[string]any{}
	saturated := false
	missing := 0
	for i := 0; i < n; i++ {
		data, err := os.ReadFile(filepath.Join(outDir, fmt.Sprintf("part-%d.json", i)))
		if err != nil {
			missing++
			continue
		}
		var p partial
		if json.Unmarshal(data, &p) != nil {
			missing++
			continue
		}
		evals += p.Evals
		allHashes = append(allHashes, p.Distinct...)
		saturated = saturated || p.Saturated
		for k, v := range p.Classes {
			classes[k] += v
		}
		for k, v := range p.Excluded {
			excluded[k] += v
		}
		for _, s := range p.Samples {
			if len(samples) < 12 {
				samples = append(samples, s)
			}
		}
		for k, v := range p.Notes {
			if _, ok := notes[k]; !ok {
				notes[k] = v
			}
		}
	}
	sort.Slice(allHashes, func(i, j int) bool { return allHashes[i] < allHashes[j] })
	ndistinct := 0
	for i, h := range allHashes {
		if i == 0 || h != allHashes[i-1] {
			ndistinct++
		}
	}
	allHashes = nil
	rule, _ := notes["rule"].(string)
	delete(notes, "rule")
	var assumptions []string
	if a, ok := notes["assumptions"].([]any); ok {
		for _, x := range a {
			assumptions = append(assumptions, fmt.Sprint(x))
		}
	}
	delete(notes, "assumptions")
	exhaustive := false
	if b, ok := notes["exhaustive"].(bool); ok {
		exhaustive = b
		delete(notes, "exhaustive")
	}
	if saturated {
		rule += " (distinct set capped per shard: the count is a lower bound)"
	}
	if samples == nil {
		samples = []any{}
	}
	cov := map[string]any{
		"evaluations":         evals,
		"distinct_nontrivial": ndistinct,
		"rule":                rule,
		"samples":             samples,
		"classes":             classes,
		"excluded_known":      excluded,
		"shards":              n,
		"shards_missing":      missing,
	}
	if exhaustive {
		cov["exhaustive_part"] = notes["exhaustive_what"]
	}
	for k, v := range notes {
		cov[k] = v
	}
	if assumptions == nil {
		assumptions = []string{}
	}
	return map[string]any{
		"property_id": id,
		"tier":        tier,
		"seed":        seed,
		"level":       ps.Level,
		"coverage":    cov,
		"assumptions": assumptions,
	}
}

func runFuzz(fbin, pkgDir, id string, fz fuzzSpec, outDir, replayDir string) (int64, []string, string) {
	cache := filepath.Join(outDir, "fuzzcache-"+fz.Target)
	_ = os.MkdirAll(cache, 0o755)
	defer os.RemoveAll(cache)
	secs := fz.Seconds
	if v := os.Getenv("VERIF_FUZZ_SECS"); v != "" {
		if k, err := strconv.Atoi(v); err == nil {
			secs = k
		}
	}
	logPath := filepath.Join(outDir, "fuzz-"+fz.Target+".log")
	lf, _ := os.Create(logPath)
	ctx, cancel := context.WithTimeout(context.Background(), time.Duration(secs+180)*time.Second)
	defer cancel()
	cmd := exec.CommandContext(ctx, fbin, "-test.run", "^$", "-test.fuzz", "^"+fz.Target+"$",
		"-test.fuzztime", strconv.Itoa(secs)+"s", "-test.fuzzcachedir", cache,
		"-test.parallel", strconv.Itoa(runtime.NumCPU()), "-test.timeout", "0")
	cmd.Dir = pkgDir
	cmd.Stdout, cmd.Stderr = lf, lf
	cmd.Env = append(goEnv(), "VERIF_TIER=thorough", "VERIF_FUZZ=1", "VERIF_DIR="+verifDir, "VERIF_REPLAY_DIR="+replayBaseDir)
	err := cmd.Run()
	lf.Close()
	data, _ := os.ReadFile(logPath)
	var execs int64
	for _, m := range reExecs.FindAllSubmatch(data, -1) {
		if n, e := strconv.ParseInt(string(m[1]), 10, 64); e == nil && n > execs {
			execs = n
		}
	}
	var viols []string
	if err != nil {
		// a crasher: the worker wrote the replay file through kit.Check
		for _, m := range reViol.FindAllSubmatch(data, -1) {
			viols = append(viols, string(m[2]))
		}
		files, _ := filepath.Glob(filepath.Join(replayDir, "*-fuzz.json"))
		viols = append(viols, files...)
		// remove the crasher the Go fuzzer stored in the package directory
		_ = os.RemoveAll(filepath.Join(pkgDir, "testdata", "fuzz", fz.Target))
		if len(viols) == 0 {
			return execs, nil, fmt.Sprintf("%s: fuzz run failed without a violation (see %s): %s", fz.Target, logPath, tail(logPath, 15))
		}
	}
	return execs, viols, fmt.Sprintf("%s: %d s, %d execs", fz.Target, secs, execs)
}

func replay(path string) int {
	abs, _ := filepath.Abs(path)
	data, err := os.ReadFile(abs)
	if err != nil {
		fatal2("%v", err)
	}
	var c struct {
		Property string `json:"property"`
	}
	if json.Unmarshal(data, &c) != nil || c.Property == "" {
		fatal2("not a replay file: %s", path)
	}
	ps, ok := spec(c.Property)
	if !ok {
		fatal2("unknown property %q", c.Property)
	}
	bin, err := build(c.Property, ps, false)
	if err != nil {
		fatal2("%v", err)
	}
	ctx, cancel := context.WithTimeout(context.Background(), 5*time.Minute)
	defer cancel()
	cmd := exec.CommandContext(ctx, bin, "-test.run", "^TestReplay$", "-test.count=1", "-test.v")
	cmd.Dir = filepath.Join(harnessDir, ps.Pkg)
	cmd.Env = append(goEnv(), "VERIF_REPLAY="+abs, "VERIF_DIR="+verifDir)
	if ps.Race {
		cmd.Env = append(cmd.Env, "GORACE=halt_on_error=1 exitcode=66")
	}
	var buf bytes.Buffer
	cmd.Stdout, cmd.Stderr = &buf, &buf
	err = cmd.Run()
	out := buf.String()
	if ee, ok := err.(*exec.ExitError); ok && ee.ExitCode() == 66 {
		fmt.Printf("VIOLATION property=%s replay=%s\n", c.Property, abs)
		if i := strings.Index(out, "WARNING: DATA RACE"); i >= 0 {
			r := out[i:]
			if len(r) > 3000 {
				r = r[:3000]
			}
			fmt.Println(r)
		}
		return 1
	}
	for _, line := range strings.Split(out, "\n") {
		if strings.HasPrefix(strings.TrimSpace(line), "KNOWN-FINDING:") {
			fmt.Println(strings.TrimSpace(line))
		}
	}
	if ctx.Err() == context.DeadlineExceeded {
		if ps.HangIsViolation {
			fmt.Printf("VIOLATION property=%s replay=%s\n  the case does not terminate within 300 s\n", c.Property, abs)
			return 1
		}
		fatal2("replay timed out")
	}
	if strings.Contains(out, "REPLAY-FAIL") {
		fmt.Printf("VIOLATION property=%s replay=%s\n", c.Property, abs)
		i := strings.Index(out, "REPLAY-FAIL")
		rest := out[i:]
		if len(rest) > 3000 {
			rest = rest[:3000]
		}
		fmt.Println(rest)
		return 1
	}
	if err != nil || !strings.Contains(out, "REPLAY-PASS") && !strings.Contains(out, "KNOWN-FINDING:") {
		fmt.Println(out)
		fatal2("replay did not run")
	}
	fmt.Printf("REPLAY-PASS property=%s file=%s\n", c.Property, abs)
	return 0
}
