// Package kit is the plumbing shared by every check package: environment,
// rapid control, evidence recording, violation/replay files, known findings
// and the hang watchdog.
//
// A check is always structured the same way:
//
//   - a pure oracle function  func(*Case) error  registered under a name with
//     Register; it executes goldmark on the data stored in the Case and returns
//     a non-nil error iff the property is violated on that case;
//   - a generator (rapid property, exhaustive enumerator or native fuzz target)
//     that builds Cases and passes them to Check.
//
// Because the oracle only sees the Case, a replay file (the Case as JSON) can
// be re-executed without rapid, and known-finding witnesses are ordinary Case
// files.
package kit

import (
	"encoding/json"
	"flag"
	"fmt"
	"hash/fnv"
	"os"
	"path/filepath"
	"runtime/debug"
	"sort"
	"strconv"
	"strings"
	"sync"
	"sync/atomic"
	"syscall"
	"testing"
	"time"

	"pgregory.net/rapid"
)

// ---------------------------------------------------------------- environment

var (
	property   string
	tier              = "quick"
	seed       uint64 = 1
	shard      int
	nshards    = 1
	outPath    string
	verifDir   = "/verif"
	repoDir    = "/repo"
	replayBase string // directory that holds replays/<ID>/ (default verifDir/replays)
)

func replayDir() string {
	if replayBase != "" {
		return filepath.Join(replayBase, property)
	}
	return filepath.Join(verifDir, "replays", property)
}

func envInt(name string, def int) int {
	if v := os.Getenv(name); v != "" {
		if n, err := strconv.ParseInt(v, 10, 64); err == nil {
			return int(n)
		}
	}
	return def
}

// Tier returns "quick" or "thorough".
func Tier() string { return tier }

// Thorough reports whether the thorough tier is running.
func Thorough() bool { return tier == "thorough" }

// Seed returns VERIF_SEED.
func Seed() uint64 { return seed }

// Shard and NShards describe the partition this process runs.
func Shard() int   { return shard }
func NShards() int { return nshards }

// RepoDir is the goldmark tree being compiled in (for data files such as spec.json).
func RepoDir() string { return repoDir }

// VerifDir is /verif.
func VerifDir() string { return verifDir }

// Property is the id this binary serves.
func Property() string { return property }

// Pick returns q in the quick tier and th in the thorough tier.
func Pick(q, th int) int {
	if Thorough() {
		return th
	}
	return q
}

// Main is called from TestMain of every check package.
func Main(m *testing.M, prop string) {
	property = prop
	if v := os.Getenv("VERIF_TIER"); v == "thorough" {
		tier = v
	}
	if v := os.Getenv("VERIF_SEED"); v != "" {
		if n, err := strconv.ParseInt(v, 10, 64); err == nil {
			seed = uint64(n)
		} else if n, err := strconv.ParseUint(v, 10, 64); err == nil {
			seed = n
		}
	}
	shard = envInt("VERIF_SHARD", 0)
	nshards = envInt("VERIF_NSHARDS", 1)
	if nshards < 1 {
		nshards = 1
	}
	outPath = os.Getenv("VERIF_OUT")
	if v := os.Getenv("VERIF_DIR"); v != "" {
		verifDir = v
	}
	if v := os.Getenv("VERIF_REPO"); v != "" {
		repoDir = v
	}
	replayBase = os.Getenv("VERIF_REPLAY_DIR")
	flag.Parse()
	_ = flag.Set("rapid.nofailfile", "true")
	_ = flag.Set("rapid.shrinktime", "20s")
	loadKnown()
	startWatchdog()
	code := m.Run()
	Flush()
	os.Exit(code)
}

func mix(parts ...uint64) uint64 {
	h := uint64(0x9E3779B97F4A7C15)
	for _, p := range parts {
		h ^= p + 0x9E3779B97F4A7C15 + (h << 6) + (h >> 2)
		h *= 0xBF58476D1CE4E5B9
		h ^= h >> 31
	}
	if h == 0 {
		h = 1
	}
	return h
}

// Hash64 is FNV-1a over the parts with separators.
func Hash64(parts ...[]byte) uint64 {
	h := fnv.New64a()
	for _, p := range parts {
		h.Write(p)
		h.Write([]byte{0xff, 0})
	}
	return h.Sum64()
}

// Rapid runs prop under rapid with a case count chosen by tier and divided
// among the shards, and a seed derived from VERIF_SEED, the shard and name.
func Rapid(t *testing.T, name string, quick, thorough int, prop func(*rapid.T)) {
	t.Helper()
	n := Pick(quick, thorough)
	if pct := envInt("VERIF_SCALE_PCT", 100); pct != 100 && pct > 0 {
		n = n * pct / 100 // sensitivity sweeps only; registered commands never set it
	}
	n = (n + nshards - 1) / nshards
	if n < 1 {
		n = 1
	}
	_ = flag.Set("rapid.checks", strconv.Itoa(n))
	_ = flag.Set("rapid.seed", strconv.FormatUint(mix(seed, uint64(shard), Hash64([]byte(name))), 10))
	rapid.Check(t, prop)
}

// MyRange partitions [0,n) among shards; returns this shard's [lo,hi).
func MyRange(n int) (int, int) {
	lo := n * shard / nshards
	hi := n * (shard + 1) / nshards
	return lo, hi
}

// Mine reports whether item i of an enumeration belongs to this shard.
func Mine(i int) bool { return i%nshards == shard }

// ---------------------------------------------------------------- cases

// Case is one executable case of a check; it is also the replay file format.
type Case struct {
	Property string            `json:"property"`
	Check    string            `json:"check"`
	Config   string            `json:"config,omitempty"`
	Bytes    map[string][]byte `json:"bytes,omitempty"` // base64 in JSON
	Ints     map[string]int64  `json:"ints,omitempty"`
	Strs     map[string]string `json:"strs,omitempty"`
	// filled in when a violation is written
	Error  string            `json:"error,omitempty"`
	Pretty map[string]string `json:"pretty,omitempty"` // %q of Bytes, for humans
	Seed   uint64            `json:"seed,omitempty"`
	Tier   string            `json:"tier,omitempty"`
}

// NewCase builds a case for the current property.
func NewCase(check, config string) *Case {
	return &Case{Property: property, Check: check, Config: config}
}

func (c *Case) B(name string, v []byte) *Case {
	if c.Bytes == nil {
		c.Bytes = map[string][]byte{}
	}
	if v == nil {
		v = []byte{}
	}
	c.Bytes[name] = v
	return c
}
func (c *Case) I(name string, v int64) *Case {
	if c.Ints == nil {
		c.Ints = map[string]int64{}
	}
	c.Ints[name] = v
	return c
}
func (c *Case) S(name, v string) *Case {
	if c.Strs == nil {
		c.Strs = map[string]string{}
	}
	c.Strs[name] = v
	return c
}

// Key is a stable byte representation used for distinct counting.
func (c *Case) Key() []byte {
	var sb strings.Builder
	sb.WriteString(c.Check)
	sb.WriteByte(0)
	sb.WriteString(c.Config)
	keys := make([]string, 0, len(c.Bytes))
	for k := range c.Bytes {
		keys = append(keys, k)
	}
	sort.Strings(keys)
	for _, k := range keys {
		sb.WriteByte(0)
		sb.WriteString(k)
		sb.WriteByte(1)
		sb.Write(c.Bytes[k])
	}
	keys = keys[:0]
	for k := range c.Ints {
		keys = append(keys, k)
	}
	sort.Strings(keys)
	for _, k := range keys {
		fmt.Fprintf(&sb, "\x00%s\x02%d", k, c.Ints[k])
	}
	keys = keys[:0]
	for k := range c.Strs {
		keys = append(keys, k)
	}
	sort.Strings(keys)
	for _, k := range keys {
		fmt.Fprintf(&sb, "\x00%s\x03%s", k, c.Strs[k])
	}
	return []byte(sb.String())
}

// Sample is a human-readable rendering for the evidence file.
func (c *Case) Sample() map[string]any {
	m := map[string]any{"check": c.Check}
	if c.Config != "" {
		m["config"] = c.Config
	}
	for k, v := range c.Bytes {
		s := strconv.QuoteToASCII(string(v))
		if len(s) > 400 {
			s = s[:400] + "...(" + strconv.Itoa(len(v)) + " bytes)"
		}
		m[k] = s
	}
	for k, v := range c.Ints {
		m[k] = v
	}
	for k, v := range c.Strs {
		if len(v) > 400 {
			v = v[:400] + "..."
		}
		m[k] = v
	}
	return m
}

// Violation is the error type oracles return; Code is a short stable
// classification used by known-finding signatures.
type Violation struct {
	Code string
	Msg  string
}

func (v *Violation) Error() string { return v.Code + ": " + v.Msg }

// Violf builds a *Violation.
func Violf(code, format string, args ...any) error {
	return &Violation{Code: code, Msg: fmt.Sprintf(format, args...)}
}

// Oracle executes a case and returns nil iff the property held.
type Oracle func(c *Case) error

// Classifier maps a failing case to the id of a known finding ("" = none).
type Classifier func(c *Case, err error) string

var (
	oracles    = map[string]Oracle{}
	classifier Classifier
)

// Register makes an oracle available to Check and to replay.
func Register(check string, o Oracle) { oracles[check] = o }

// SetClassifier installs the known-finding signature function of the package.
func SetClassifier(f Classifier) { classifier = f }

// Exec runs the registered oracle with panic capture.
func Exec(c *Case) (err error) {
	o := oracles[c.Check]
	if o == nil {
		return fmt.Errorf("harness: no oracle %q", c.Check)
	}
	defer func() {
		if r := recover(); r != nil {
			err = &Violation{Code: "panic", Msg: fmt.Sprintf("%v\n%s", r, debug.Stack())}
		}
	}()
	return o(c)
}

// TB is the subset of testing.TB / rapid.T that Check needs.
type TB interface {
	Fatalf(format string, args ...any)
	Helper()
}

// Check executes the case; a failure that is not a listed known finding is
// written as a replay file and fails t.
func Check(t TB, c *Case) bool {
	t.Helper()
	R.eval()
	beginCase(c)
	err := Exec(c)
	endCase()
	if err == nil {
		return true
	}
	if classifier != nil {
		if id := classifier(c, err); id != "" {
			if k, ok := knownByID[id]; ok && k.Status == "known" {
				R.Excluded(id)
				return false
			}
		}
	}
	path := WriteReplay(c, err)
	t.Fatalf("VERIF-VIOLATION property=%s replay=%s\n%v", property, path, err)
	return false
}

var replaySeq atomic.Int64

// WriteReplay stores the failing case under /verif/replays/<ID>/.
func WriteReplay(c *Case, err error) string {
	cc := *c
	cc.Error = err.Error()
	if len(cc.Error) > 6000 {
		cc.Error = cc.Error[:6000] + "..."
	}
	cc.Pretty = map[string]string{}
	for k, v := range c.Bytes {
		cc.Pretty[k] = strconv.QuoteToASCII(string(v))
	}
	cc.Seed = seed
	cc.Tier = tier
	dir := replayDir()
	_ = os.MkdirAll(dir, 0o755)
	// One file per (check, shard): rapid re-executes the property while
	// shrinking, so the last write is the minimal case.
	name := fmt.Sprintf("%s-s%d-%d.json", c.Check, seed, shard)
	if os.Getenv("VERIF_FUZZ") != "" {
		name = fmt.Sprintf("%s-fuzz.json", c.Check)
	}
	path := filepath.Join(dir, name)
	data, _ := json.MarshalIndent(&cc, "", " ")
	tmp := path + fmt.Sprintf(".tmp%d-%d", os.Getpid(), replaySeq.Add(1))
	if e := os.WriteFile(tmp, data, 0o644); e == nil {
		_ = os.Rename(tmp, path)
	}
	return path
}

// LoadCase reads a replay / witness file.
func LoadCase(path string) (*Case, error) {
	data, err := os.ReadFile(path)
	if err != nil {
		return nil, err
	}
	var c Case
	if err := json.Unmarshal(data, &c); err != nil {
		return nil, err
	}
	return &c, nil
}

// ---------------------------------------------------------------- known findings

// Known is one entry of /verif/known_findings.json.
type Known struct {
	Property string `json:"property"`
	ID       string `json:"id"`
	Status   string `json:"status"` // "known" | "fixed"
	Commit   string `json:"commit,omitempty"`
	Witness  string `json:"witness"` // path relative to /verif
	What     string `json:"what"`
}

var (
	knownAll  []Known
	knownByID = map[string]Known{}
)

func loadKnown() {
	data, err := os.ReadFile(filepath.Join(verifDir, "known_findings.json"))
	if err != nil {
		return
	}
	var f struct {
		Findings []Known `json:"findings"`
	}
	if err := json.Unmarshal(data, &f); err != nil {
		fmt.Fprintf(os.Stderr, "harness: known_findings.json: %v\n", err)
		os.Exit(2)
	}
	for _, k := range f.Findings {
		knownAll = append(knownAll, k)
		if k.Property == property {
			knownByID[k.ID] = k
		}
	}
}

// IsKnown reports whether id is listed with status "known" for this property.
func IsKnown(id string) bool {
	k, ok := knownByID[id]
	return ok && k.Status == "known"
}

// RunKnown replays every witness listed for this property (the seconds-long
// replay tier). "known" entries must still fail with their own signature and
// print a KNOWN-FINDING line; "fixed" entries and plain regression inputs
// (files under known/<ID>/ not listed) must pass.
func RunKnown(t *testing.T) {
	if shard != 0 || os.Getenv("VERIF_NOKNOWN") != "" {
		return // VERIF_NOKNOWN: sensitivity experiments that must rely on the generated search alone
	}
	listed := map[string]bool{}
	for _, k := range knownAll {
		if k.Property != property {
			continue
		}
		path := filepath.Join(verifDir, k.Witness)
		listed[filepath.Clean(path)] = true
		c, err := LoadCase(path)
		if err != nil {
			fmt.Printf("HARNESS-ERROR cannot load witness %s: %v\n", path, err)
			t.Fail()
			continue
		}
		R.eval()
		verr := Exec(c)
		switch k.Status {
		case "known":
			if verr == nil {
				fmt.Printf("NOTE: property=%s known finding %s no longer reproduces (%s)\n", property, k.ID, k.What)
				continue
			}
			id := ""
			if classifier != nil {
				id = classifier(c, verr)
			}
			if id != k.ID {
				p := WriteReplay(c, verr)
				fmt.Printf("VERIF-VIOLATION property=%s replay=%s\nwitness of %s fails differently: %v\n", property, p, k.ID, verr)
				t.Fail()
				continue
			}
			fmt.Printf("KNOWN-FINDING: property=%s %s: %s\n", property, k.ID, k.What)
		default: // fixed
			if verr != nil {
				c2 := *c
				c2.Check = c.Check
				p := WriteReplay(&c2, verr)
				// keep regression replays apart from generated ones
				np := strings.TrimSuffix(p, ".json") + "-" + k.ID + ".json"
				if os.Rename(p, np) == nil {
					p = np
				}
				fmt.Printf("VERIF-VIOLATION property=%s replay=%s\nfixed finding %s is back: %v\n", property, p, k.ID, verr)
				t.Fail()
			}
		}
	}
	// unlisted regression inputs
	files, _ := filepath.Glob(filepath.Join(verifDir, "known", property, "*.json"))
	for _, f := range files {
		if listed[filepath.Clean(f)] {
			continue
		}
		c, err := LoadCase(f)
		if err != nil {
			continue
		}
		R.eval()
		if verr := Exec(c); verr != nil {
			id := ""
			if classifier != nil {
				id = classifier(c, verr)
			}
			if id != "" && IsKnown(id) {
				continue
			}
			p := WriteReplay(c, verr)
			np := strings.TrimSuffix(p, ".json") + "-" + strings.TrimSuffix(filepath.Base(f), ".json") + ".json"
			if os.Rename(p, np) == nil {
				p = np
			}
			fmt.Printf("VERIF-VIOLATION property=%s replay=%s\nregression input %s fails: %v\n", property, p, f, verr)
			t.Fail()
		}
	}
}

// RunReplay re-executes the file named by VERIF_REPLAY through the plain
// oracle. Called by TestReplay in every package.
func RunReplay(t *testing.T) {
	path := os.Getenv("VERIF_REPLAY")
	if path == "" {
		t.Skip("no VERIF_REPLAY")
	}
	c, err := LoadCase(path)
	if err != nil {
		fmt.Printf("HARNESS-ERROR %v\n", err)
		t.FailNow()
	}
	verr := Exec(c)
	if verr == nil {
		fmt.Printf("REPLAY-PASS property=%s file=%s\n", property, path)
		return
	}
	id := ""
	if classifier != nil {
		id = classifier(c, verr)
	}
	if id != "" && IsKnown(id) {
		fmt.Printf("KNOWN-FINDING: property=%s %s: %s\n", property, id, knownByID[id].What)
		return
	}
	fmt.Printf("REPLAY-FAIL property=%s file=%s\n%v\n", property, path, verr)
	t.Fail()
}

// ---------------------------------------------------------------- evidence

const (
	maxDistinct = 1 << 20
	maxSamples  = 8
)

// Rec accumulates what a shard covered.
type Rec struct {
	mu         sync.Mutex
	evals      int64
	distinct   map[uint64]struct{}
	saturated  bool
	classes    map[string]int64
	excluded   map[string]int64
	samples    []any
	sampleKey  []uint64
	bigSamples []any
	bigKeys    []uint64
	notes      map[string]any
}

// R is the process-wide recorder.
var R = &Rec{distinct: map[uint64]struct{}{}, classes: map[string]int64{}, excluded: map[string]int64{}, notes: map[string]any{}}

func (r *Rec) eval() { atomic.AddInt64(&r.evals, 1) }

// Eval counts an evaluation that did not go through Check.
func (r *Rec) Eval(n int) { atomic.AddInt64(&r.evals, int64(n)) }

// NonTrivial records a distinct non-trivial case (by hash) and offers it as a sample.
func (r *Rec) NonTrivial(c *Case) {
	h := Hash64(c.Key())
	r.mu.Lock()
	defer r.mu.Unlock()
	if _, ok := r.distinct[h]; ok {
		return
	}
	if len(r.distinct) < maxDistinct {
		r.distinct[h] = struct{}{}
	} else {
		r.saturated = true
	}
	// deterministic sample selection: the smallest hashes among short cases and,
	// separately, among larger ones (so that samples are not all tiny)
	key := h
	if len(c.Key()) >= 64 {
		r.offerSample(&r.bigSamples, &r.bigKeys, key, c)
		return
	}
	r.offerSample(&r.samples, &r.sampleKey, key, c)
}

func (r *Rec) offerSample(samples *[]any, keys *[]uint64, h uint64, c *Case) {
	const half = maxSamples / 2
	if len(*samples) < half {
		*samples = append(*samples, c.Sample())
		*keys = append(*keys, h)
		return
	}
	worst := 0
	for i, k := range *keys {
		if k > (*keys)[worst] {
			worst = i
		}
	}
	if h < (*keys)[worst] {
		(*samples)[worst] = c.Sample()
		(*keys)[worst] = h
	}
}

// NonTrivialKey records a distinct non-trivial case given by key bytes and a sample value.
func (r *Rec) NonTrivialKey(key []byte, sample any) {
	h := Hash64(key)
	r.mu.Lock()
	defer r.mu.Unlock()
	if _, ok := r.distinct[h]; ok {
		return
	}
	if len(r.distinct) < maxDistinct {
		r.distinct[h] = struct{}{}
	} else {
		r.saturated = true
	}
	if len(r.samples) < maxSamples {
		r.samples = append(r.samples, sample)
		r.sampleKey = append(r.sampleKey, h)
	}
}

// Class bumps histogram counters.
func (r *Rec) Class(names ...string) {
	r.mu.Lock()
	for _, n := range names {
		r.classes[n]++
	}
	r.mu.Unlock()
}

// ClassN adds n to a histogram counter.
func (r *Rec) ClassN(name string, n int64) {
	r.mu.Lock()
	r.classes[name] += n
	r.mu.Unlock()
}

// Excluded counts a failing case attributed to a listed known finding.
func (r *Rec) Excluded(id string) {
	r.mu.Lock()
	r.excluded[id]++
	r.mu.Unlock()
}

// Note stores a free-form fact (e.g. "exhaustive": true).
func (r *Rec) Note(k string, v any) {
	r.mu.Lock()
	r.notes[k] = v
	r.mu.Unlock()
}

// ClassCount reads a histogram counter.
func (r *Rec) ClassCount(name string) int64 {
	r.mu.Lock()
	defer r.mu.Unlock()
	return r.classes[name]
}

// Partial is the per-shard evidence file.
type Partial struct {
	Property  string           `json:"property"`
	Shard     int              `json:"shard"`
	Evals     int64            `json:"evals"`
	Distinct  []uint64         `json:"distinct"`
	Saturated bool             `json:"saturated"`
	Classes   map[string]int64 `json:"classes"`
	Excluded  map[string]int64 `json:"excluded"`
	Samples   []any            `json:"samples"`
	Notes     map[string]any   `json:"notes"`
}

// Flush writes the shard's partial evidence.
func Flush() {
	if outPath == "" {
		return
	}
	R.mu.Lock()
	defer R.mu.Unlock()
	p := Partial{Property: property, Shard: shard, Evals: atomic.LoadInt64(&R.evals), Saturated: R.saturated,
		Classes: R.classes, Excluded: R.excluded, Samples: append(append([]any{}, R.bigSamples...), R.samples...), Notes: R.notes}
	p.Distinct = make([]uint64, 0, len(R.distinct))
	for h := range R.distinct {
		p.Distinct = append(p.Distinct, h)
	}
	sort.Slice(p.Distinct, func(i, j int) bool { return p.Distinct[i] < p.Distinct[j] })
	data, _ := json.Marshal(&p)
	_ = os.WriteFile(outPath, data, 0o644)
}

// ---------------------------------------------------------------- watchdog

var (
	curCase  atomic.Pointer[Case]
	curSince atomic.Int64
	curSeq   atomic.Int64
	hangSecs = 30
)

var saveCurrent = os.Getenv("VERIF_SAVE_CURRENT") != ""

func beginCase(c *Case) {
	curCase.Store(c)
	curSeq.Add(1)
	if saveCurrent {
		// the race detector halts the process on the first report: keep the
		// running case on disk so that the driver can name it
		dir := replayDir()
		_ = os.MkdirAll(dir, 0o755)
		data, _ := json.Marshal(c)
		_ = os.WriteFile(filepath.Join(dir, fmt.Sprintf("current-%d.json", shard)), data, 0o644)
	}
}
func endCase() {
	curCase.Store(nil)
	if saveCurrent {
		_ = os.Remove(filepath.Join(replayDir(), fmt.Sprintf("current-%d.json", shard)))
	}
}

// startWatchdog aborts the process with exit status 3 when one case has been
// executing for hangSecs; the case is saved so that the driver can re-run it
// alone before anything is concluded.
func startWatchdog() {
	hangSecs = envInt("VERIF_HANG_SECS", 30)
	if os.Getenv("VERIF_REPLAY") != "" {
		return
	}
	go func() {
		// The bound is user-mode CPU time consumed by this process while one and the same case is current, not wall
		// clock: a starved shard on a busy machine, a paused VM or a stepped clock must never look like a hang.
		var lastSeq int64 = -1
		var cpuAtFirstSeen time.Duration
		for {
			time.Sleep(time.Second)
			c := curCase.Load()
			seq := curSeq.Load()
			now := processCPU()
			if c == nil || seq != lastSeq {
				lastSeq, cpuAtFirstSeen = seq, now
				continue
			}
			if now-cpuAtFirstSeen > time.Duration(hangSecs)*time.Second {
				dir := replayDir()
				_ = os.MkdirAll(dir, 0o755)
				cc := *c
				cc.Error = fmt.Sprintf("hang-candidate: case still running after %d s of CPU time", hangSecs)
				data, _ := json.MarshalIndent(&cc, "", " ")
				path := filepath.Join(dir, fmt.Sprintf("hang-candidate-%d.json", shard))
				_ = os.WriteFile(path, data, 0o644)
				fmt.Printf("HANG-CANDIDATE property=%s file=%s\n", property, path)
				Flush()
				os.Exit(3)
			}
		}
	}()
}

func processCPU() time.Duration {
	var ru syscall.Rusage
	if syscall.Getrusage(syscall.RUSAGE_SELF, &ru) != nil {
		return 0
	}
	return time.Duration(ru.Utime.Nano()) // user time only: system time balloons under memory / scheduler contention
}

// Describe records the non-triviality rule and the assumptions for the evidence file.
func Describe(rule string, assumptions ...string) {
	R.Note("rule", rule)
	R.Note("assumptions", assumptions)
}
