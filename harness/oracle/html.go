package oracle

import (
	"bytes"
	"encoding/xml"
	"fmt"
	"html"
	"io"
	"strings"
	"unicode/utf8"

	xhtml "golang.org/x/net/html"
)

// TokKind enumerates strict tokens.
type TokKind int

const (
	TokText TokKind = iota
	TokStart
	TokEnd
	TokComment
)

// Attr is one attribute of a start tag.
type Attr struct {
	Name string
	Raw  string // bytes between the quotes
	Val  string // decoded with html.UnescapeString
}

// Token is one strict token.
type Token struct {
	Kind      TokKind
	Name      string
	Attrs     []Attr
	SelfClose bool
	Text      string // raw text (TokText) or comment body
	Pos       int
}

// Elem is a node of the element tree built from a strict token stream.
type Elem struct {
	Name     string
	Attrs    []Attr
	Children []*Elem // elements only
	Parent   *Elem
	text     strings.Builder
	Pos      int
}

// Attr returns the decoded value of an attribute.
func (e *Elem) Attr(name string) (string, bool) {
	for _, a := range e.Attrs {
		if a.Name == name {
			return a.Val, true
		}
	}
	return "", false
}

// TextContent returns the decoded text directly and indirectly inside e.
func (e *Elem) TextContent() string { return html.UnescapeString(e.text.String()) }

// Find returns all descendants (document order) with the given tag name.
func (e *Elem) Find(name string) []*Elem {
	var out []*Elem
	var walk func(x *Elem)
	walk = func(x *Elem) {
		for _, c := range x.Children {
			if c.Name == name {
				out = append(out, c)
			}
			walk(c)
		}
	}
	walk(e)
	return out
}

// All returns all descendants in document order.
func (e *Elem) All() []*Elem {
	var out []*Elem
	var walk func(x *Elem)
	walk = func(x *Elem) {
		for _, c := range x.Children {
			out = append(out, c)
			walk(c)
		}
	}
	walk(e)
	return out
}

// VoidTags are the elements written without an end tag.
var VoidTags = map[string]bool{"br": true, "hr": true, "img": true, "input": true}

const placeholderComment = "<!-- raw HTML omitted -->"

func isNameStart(c byte) bool { return c >= 'a' && c <= 'z' }
func isNameChar(c byte) bool  { return c >= 'a' && c <= 'z' || c >= '0' && c <= '9' }
func isAttrStart(c byte) bool {
	return c >= 'a' && c <= 'z' || c >= 'A' && c <= 'Z' || c == '_' || c == ':'
}
func isAttrChar(c byte) bool {
	return isAttrStart(c) || c >= '0' && c <= '9' || c == '.' || c == '-'
}

// checkAmp verifies that the '&' at s[i] starts &name; &#D+; or &#xH+;
func checkAmp(s []byte, i int) bool {
	j := i + 1
	if j >= len(s) {
		return false
	}
	if s[j] == '#' {
		j++
		if j < len(s) && (s[j] == 'x' || s[j] == 'X') {
			j++
			k := j
			for j < len(s) && (s[j] >= '0' && s[j] <= '9' || s[j] >= 'a' && s[j] <= 'f' || s[j] >= 'A' && s[j] <= 'F') {
				j++
			}
			return j > k && j < len(s) && s[j] == ';'
		}
		k := j
		for j < len(s) && s[j] >= '0' && s[j] <= '9' {
			j++
		}
		return j > k && j < len(s) && s[j] == ';'
	}
	k := j
	for j < len(s) && (s[j] >= '0' && s[j] <= '9' || s[j] >= 'a' && s[j] <= 'z' || s[j] >= 'A' && s[j] <= 'Z') {
		j++
	}
	return j > k && j < len(s) && s[j] == ';'
}

// TokenizeStrict accepts exactly: text; <name( attr="value")*>; <name ... />
// for void elements; </name>; the literal placeholder comment.
func TokenizeStrict(out []byte) ([]Token, error) {
	var toks []Token
	i := 0
	textStart := 0
	flush := func(end int) {
		if end > textStart {
			toks = append(toks, Token{Kind: TokText, Text: string(out[textStart:end]), Pos: textStart})
		}
	}
	for i < len(out) {
		c := out[i]
		switch c {
		case '&':
			if !checkAmp(out, i) {
				return toks, fmt.Errorf("bare-amp: '&' at offset %d does not start a character reference: %q", i, clip(out, i))
			}
			i++
		case '<':
			flush(i)
			if bytes.HasPrefix(out[i:], []byte(placeholderComment)) {
				toks = append(toks, Token{Kind: TokComment, Text: " raw HTML omitted ", Pos: i})
				i += len(placeholderComment)
				textStart = i
				continue
			}
			if bytes.HasPrefix(out[i:], []byte("<!--")) {
				return toks, fmt.Errorf("comment: a comment other than the placeholder at offset %d: %q", i, clip(out, i))
			}
			j := i + 1
			if j < len(out) && out[j] == '/' {
				j++
				k := j
				if j >= len(out) || !isNameStart(out[j]) {
					return toks, fmt.Errorf("raw-lt: '<' at offset %d is not a tag: %q", i, clip(out, i))
				}
				for j < len(out) && isNameChar(out[j]) {
					j++
				}
				if j >= len(out) || out[j] != '>' {
					return toks, fmt.Errorf("bad-end-tag: at offset %d: %q", i, clip(out, i))
				}
				toks = append(toks, Token{Kind: TokEnd, Name: string(out[k:j]), Pos: i})
				i = j + 1
				textStart = i
				continue
			}
			if j >= len(out) || !isNameStart(out[j]) {
				return toks, fmt.Errorf("raw-lt: '<' at offset %d is not a tag: %q", i, clip(out, i))
			}
			k := j
			for j < len(out) && isNameChar(out[j]) {
				j++
			}
			tok := Token{Kind: TokStart, Name: string(out[k:j]), Pos: i}
			seen := map[string]bool{}
			for {
				if j >= len(out) {
					return toks, fmt.Errorf("unterminated-tag: at offset %d: %q", i, clip(out, i))
				}
				if out[j] == '>' {
					j++
					break
				}
				if out[j] == ' ' && j+2 < len(out) && out[j+1] == '/' && out[j+2] == '>' {
					tok.SelfClose = true
					j += 3
					break
				}
				if out[j] != ' ' {
					return toks, fmt.Errorf("bad-tag: unexpected byte %q in tag at offset %d: %q", out[j], j, clip(out, i))
				}
				j++
				a := j
				if j >= len(out) || !isAttrStart(out[j]) {
					return toks, fmt.Errorf("bad-attr-name: at offset %d: %q", j, clip(out, i))
				}
				for j < len(out) && isAttrChar(out[j]) {
					j++
				}
				name := string(out[a:j])
				if j+1 >= len(out) || out[j] != '=' || out[j+1] != '"' {
					return toks, fmt.Errorf("attr-without-quoted-value: %q at offset %d: %q", name, j, clip(out, i))
				}
				j += 2
				v := j
				for j < len(out) && out[j] != '"' {
					if out[j] == '&' && !checkAmp(out, j) {
						return toks, fmt.Errorf("bare-amp: '&' in value of %q at offset %d: %q", name, j, clip(out, i))
					}
					j++
				}
				if j >= len(out) {
					return toks, fmt.Errorf("unterminated-attr: %q at offset %d: %q", name, v, clip(out, i))
				}
				raw := string(out[v:j])
				j++
				if seen[name] {
					return toks, fmt.Errorf("duplicate-attr: %q at offset %d: %q", name, a, clip(out, i))
				}
				seen[name] = true
				tok.Attrs = append(tok.Attrs, Attr{Name: name, Raw: raw, Val: html.UnescapeString(raw)})
			}
			toks = append(toks, tok)
			i = j
			textStart = i
		default:
			i++
		}
	}
	flush(len(out))
	return toks, nil
}

func clip(b []byte, i int) string {
	lo := i - 30
	if lo < 0 {
		lo = 0
	}
	hi := i + 60
	if hi > len(b) {
		hi = len(b)
	}
	return string(b[lo:hi])
}

// BuildTree checks nesting (every non-void element closed, in order; only
// void elements self-closed) and returns the element tree.
func BuildTree(toks []Token) (*Elem, error) {
	root := &Elem{Name: "#root"}
	cur := root
	for _, t := range toks {
		switch t.Kind {
		case TokText:
			for e := cur; e != nil; e = e.Parent {
				e.text.WriteString(t.Text)
			}
		case TokStart:
			e := &Elem{Name: t.Name, Attrs: t.Attrs, Parent: cur, Pos: t.Pos}
			cur.Children = append(cur.Children, e)
			if t.SelfClose && !VoidTags[t.Name] {
				return root, fmt.Errorf("self-closing-non-void: <%s /> at offset %d", t.Name, t.Pos)
			}
			if !VoidTags[t.Name] {
				cur = e
			}
		case TokEnd:
			if VoidTags[t.Name] {
				return root, fmt.Errorf("end-tag-for-void: </%s> at offset %d", t.Name, t.Pos)
			}
			if cur == root || cur.Name != t.Name {
				return root, fmt.Errorf("mis-nesting: </%s> at offset %d while <%s> is open", t.Name, t.Pos, cur.Name)
			}
			cur = cur.Parent
		}
	}
	if cur != root {
		return root, fmt.Errorf("unclosed: <%s> opened at offset %d is never closed", cur.Name, cur.Pos)
	}
	return root, nil
}

// ParseStrict = TokenizeStrict + BuildTree.
func ParseStrict(out []byte) (*Elem, []Token, error) {
	toks, err := TokenizeStrict(out)
	if err != nil {
		return nil, toks, err
	}
	root, err := BuildTree(toks)
	return root, toks, err
}

func normNL(s string) string {
	s = strings.ReplaceAll(s, "\r\n", "\n")
	return strings.ReplaceAll(s, "\r", "\n")
}

// BrowserAgrees feeds the same bytes to golang.org/x/net/html's tokenizer (the
// lenient, browser-like one) and requires the same sequence of tags and
// decoded attributes as the strict tokens.
func BrowserAgrees(out []byte, toks []Token) error {
	z := xhtml.NewTokenizer(bytes.NewReader(out))
	var got []Token
	for {
		tt := z.Next()
		if tt == xhtml.ErrorToken {
			if z.Err() != io.EOF {
				return fmt.Errorf("browser-tokenizer: %v", z.Err())
			}
			break
		}
		switch tt {
		case xhtml.StartTagToken, xhtml.SelfClosingTagToken:
			t := z.Token()
			tok := Token{Kind: TokStart, Name: t.Data}
			for _, a := range t.Attr {
				tok.Attrs = append(tok.Attrs, Attr{Name: a.Key, Val: a.Val})
			}
			got = append(got, tok)
		case xhtml.EndTagToken:
			got = append(got, Token{Kind: TokEnd, Name: z.Token().Data})
		case xhtml.CommentToken:
			got = append(got, Token{Kind: TokComment, Text: z.Token().Data})
		case xhtml.DoctypeToken:
			got = append(got, Token{Kind: TokComment, Text: "doctype"})
		}
	}
	var want []Token
	for _, t := range toks {
		if t.Kind != TokText {
			want = append(want, t)
		}
	}
	if len(got) != len(want) {
		return fmt.Errorf("browser-disagrees: strict tokenizer sees %d tags/comments, browser tokenizer %d", len(want), len(got))
	}
	for i := range want {
		w, g := want[i], got[i]
		if w.Kind != g.Kind || w.Name != g.Name {
			return fmt.Errorf("browser-disagrees: token %d: strict %v %q, browser %v %q", i, w.Kind, w.Name, g.Kind, g.Name)
		}
		if w.Kind == TokComment && w.Text != g.Text {
			return fmt.Errorf("browser-disagrees: comment %q vs %q", w.Text, g.Text)
		}
		if len(w.Attrs) != len(g.Attrs) {
			return fmt.Errorf("browser-disagrees: <%s> has %d attributes for the strict tokenizer, %d for the browser", w.Name, len(w.Attrs), len(g.Attrs))
		}
		for j := range w.Attrs {
			if strings.ToLower(w.Attrs[j].Name) != g.Attrs[j].Name || normNL(strings.ReplaceAll(w.Attrs[j].Val, "\x00", "�")) != normNL(strings.ReplaceAll(g.Attrs[j].Val, "\x00", "�")) {
				return fmt.Errorf("browser-disagrees: <%s> attribute %d: strict %s=%q, browser %s=%q", w.Name, j, w.Attrs[j].Name, w.Attrs[j].Val, g.Attrs[j].Name, g.Attrs[j].Val)
			}
		}
	}
	return nil
}

// XMLRepresentable reports whether out is valid UTF-8 made of XML Chars only.
func XMLRepresentable(out []byte) bool {
	if !utf8.Valid(out) {
		return false
	}
	for _, r := range string(out) {
		ok := r == 0x9 || r == 0xA || r == 0xD || r >= 0x20 && r <= 0xD7FF || r >= 0xE000 && r <= 0xFFFD || r >= 0x10000 && r <= 0x10FFFF
		if !ok {
			return false
		}
	}
	return true
}

// CheckXML parses <root>out</root> with encoding/xml in strict mode (HTML
// named entities defined, as in the XHTML DTD).
func CheckXML(out []byte) error {
	d := xml.NewDecoder(io.MultiReader(strings.NewReader("<root>"), bytes.NewReader(out), strings.NewReader("</root>")))
	d.Strict = true
	d.Entity = xml.HTMLEntity
	for {
		_, err := d.Token()
		if err == io.EOF {
			return nil
		}
		if err != nil {
			return fmt.Errorf("not-xml: %v", err)
		}
	}
}

// NormalizeURL applies the WHATWG URL parser's preprocessing to a decoded
// attribute value: strip leading (and trailing) C0 control or space, remove
// every TAB, LF and CR, lower-case ASCII.
func NormalizeURL(v string) string {
	i := 0
	for i < len(v) && v[i] <= 0x20 {
		i++
	}
	v = v[i:]
	var sb strings.Builder
	for j := 0; j < len(v); j++ {
		c := v[j]
		if c == '\t' || c == '\n' || c == '\r' {
			continue
		}
		if c >= 'A' && c <= 'Z' {
			c += 'a' - 'A'
		}
		sb.WriteByte(c)
	}
	return sb.String()
}

var allowedDataImages = []string{"data:image/png;", "data:image/gif;", "data:image/jpeg;", "data:image/webp;", "data:image/svg+xml;"}

// DangerousURL reports whether the decoded attribute value, as a browser
// would read it, begins with javascript:, vbscript:, file: or a data: URL
// other than the image types goldmark allows.
func DangerousURL(decoded string) bool {
	n := NormalizeURL(decoded)
	switch {
	case strings.HasPrefix(n, "javascript:"), strings.HasPrefix(n, "vbscript:"), strings.HasPrefix(n, "file:"):
		return true
	case strings.HasPrefix(n, "data:"):
		for _, p := range allowedDataImages {
			if strings.HasPrefix(n, p) {
				return false
			}
		}
		return true
	}
	return false
}
