package oracle

import (
	"fmt"
	"reflect"
	"sort"
	"strings"

	"github.com/yuin/goldmark/ast"
	"github.com/yuin/goldmark/text"
)

// Fingerprint serialises everything a parsed tree exposes through its public surface: for every node, in
// document order, the kind, the child count, the attributes (name = value), the line segments of blocks and
// every exported field of the concrete node type that is a scalar, a string, a byte slice, a text.Segment,
// a *text.Segments or a slice / map of such things. Pointers to other nodes are not followed (the walk already
// covers children) and unexported fields are invisible to it, exactly as they are to a caller. Two
// fingerprints of the same tree taken before and after a Render call must be equal: "rendering does not
// alter the tree".
func Fingerprint(doc ast.Node) string {
	var b strings.Builder
	var rec func(n ast.Node, depth int)
	rec = func(n ast.Node, depth int) {
		fmt.Fprintf(&b, "%*s%s c=%d", depth, "", n.Kind().String(), n.ChildCount())
		if attrs := n.Attributes(); len(attrs) > 0 {
			b.WriteString(" attrs[")
			for _, a := range attrs {
				fmt.Fprintf(&b, "%q=%s;", a.Name, valueString(reflect.ValueOf(a.Value), 0))
			}
			b.WriteString("]")
		}
		if n.Type() == ast.TypeBlock {
			if ls := n.Lines(); ls != nil {
				b.WriteString(" lines")
				b.WriteString(segsString(ls))
			}
			fmt.Fprintf(&b, " blank=%v", n.HasBlankPreviousLines())
		}
		v := reflect.ValueOf(n)
		if v.Kind() == reflect.Ptr && !v.IsNil() && v.Elem().Kind() == reflect.Struct {
			fieldsString(&b, v.Elem(), 0)
		}
		b.WriteByte('\n')
		for c := n.FirstChild(); c != nil; c = c.NextSibling() {
			rec(c, depth+1)
		}
	}
	rec(doc, 0)
	return b.String()
}

func segsString(ls *text.Segments) string {
	var b strings.Builder
	b.WriteByte('[')
	for i := 0; i < ls.Len(); i++ {
		s := ls.At(i)
		fmt.Fprintf(&b, "%d-%d+%d/%v ", s.Start, s.Stop, s.Padding, s.ForceNewline)
	}
	b.WriteByte(']')
	return b.String()
}

var (
	segType  = reflect.TypeOf(text.Segment{})
	segsType = reflect.TypeOf(&text.Segments{})
	nodeType = reflect.TypeOf((*ast.Node)(nil)).Elem()
)

func fieldsString(b *strings.Builder, s reflect.Value, depth int) {
	t := s.Type()
	for i := 0; i < t.NumField(); i++ {
		f := t.Field(i)
		if !f.IsExported() {
			continue
		}
		fv := s.Field(i)
		if f.Anonymous {
			// BaseBlock / BaseInline / BaseNode hold only unexported state; other embedded structs are data
			if fv.Kind() == reflect.Struct && depth < 3 {
				fieldsString(b, fv, depth+1)
			}
			continue
		}
		if str := valueString(fv, depth); str != "" {
			fmt.Fprintf(b, " %s=%s", f.Name, str)
		}
	}
}

func valueString(v reflect.Value, depth int) string {
	if !v.IsValid() {
		return "<nil>"
	}
	if v.Type() == segType {
		s := v.Interface().(text.Segment)
		return fmt.Sprintf("%d-%d+%d/%v", s.Start, s.Stop, s.Padding, s.ForceNewline)
	}
	if v.Type() == segsType {
		if v.IsNil() {
			return "<nil>"
		}
		return segsString(v.Interface().(*text.Segments))
	}
	if v.Type().Implements(nodeType) {
		return "" // other nodes are reached by the walk
	}
	switch v.Kind() {
	case reflect.Bool, reflect.Int, reflect.Int8, reflect.Int16, reflect.Int32, reflect.Int64,
		reflect.Uint, reflect.Uint8, reflect.Uint16, reflect.Uint32, reflect.Uint64, reflect.Float32, reflect.Float64:
		return fmt.Sprintf("%v", v.Interface())
	case reflect.String:
		return fmt.Sprintf("%q", v.String())
	case reflect.Slice:
		if v.Type().Elem().Kind() == reflect.Uint8 {
			if v.IsNil() {
				return "<nil>"
			}
			return fmt.Sprintf("%q", v.Bytes())
		}
		if depth > 3 {
			return ""
		}
		var p []string
		for i := 0; i < v.Len(); i++ {
			p = append(p, valueString(v.Index(i), depth+1))
		}
		return "[" + strings.Join(p, ",") + "]"
	case reflect.Map:
		if depth > 3 {
			return ""
		}
		var p []string
		for _, k := range v.MapKeys() {
			p = append(p, valueString(k, depth+1)+":"+valueString(v.MapIndex(k), depth+1))
		}
		sort.Strings(p)
		return "{" + strings.Join(p, ",") + "}"
	case reflect.Ptr, reflect.Interface:
		if v.IsNil() {
			return "<nil>"
		}
		if depth > 3 {
			return ""
		}
		return valueString(v.Elem(), depth+1)
	case reflect.Struct:
		if depth > 3 {
			return ""
		}
		var b strings.Builder
		b.WriteByte('{')
		fieldsString(&b, v, depth+1)
		b.WriteByte('}')
		return b.String()
	}
	return "" // functions, channels: not data
}
