// Package oracle holds the shared oracles: AST validator, strict HTML
// tokenizer, browser-like URL normaliser, XML check.
package oracle

import (
	"fmt"
	"reflect"
	"unsafe"

	"github.com/yuin/goldmark/ast"
	east "github.com/yuin/goldmark/extension/ast"
	"github.com/yuin/goldmark/text"
)

// ASTStats describes a validated tree (used for non-triviality rules).
type ASTStats struct {
	Nodes    int
	Depth    int
	Kinds    map[string]int
	Reparent bool // contains a node kind produced by a transformer / Close handler
}

// AllowedKinds is the public vocabulary of node kinds.
var coreKinds = map[ast.NodeKind]bool{
	ast.KindDocument: true, ast.KindTextBlock: true, ast.KindParagraph: true, ast.KindHeading: true,
	ast.KindThematicBreak: true, ast.KindCodeBlock: true, ast.KindFencedCodeBlock: true, ast.KindBlockquote: true,
	ast.KindList: true, ast.KindListItem: true, ast.KindHTMLBlock: true,
	ast.KindText: true, ast.KindString: true, ast.KindCodeSpan: true, ast.KindEmphasis: true, ast.KindLink: true,
	ast.KindImage: true, ast.KindAutoLink: true, ast.KindRawHTML: true,
}

// ExtKinds selects which extension kinds are legal.
type ExtKinds struct {
	Table, Strike, Task, DefList, Footnote bool
}

func (e ExtKinds) allowed(k ast.NodeKind) bool {
	if coreKinds[k] {
		return true
	}
	switch k {
	case east.KindTable, east.KindTableHeader, east.KindTableRow, east.KindTableCell:
		return e.Table
	case east.KindStrikethrough:
		return e.Strike
	case east.KindTaskCheckBox:
		return e.Task
	case east.KindDefinitionList, east.KindDefinitionTerm, east.KindDefinitionDescription:
		return e.DefList
	case east.KindFootnote, east.KindFootnoteLink, east.KindFootnoteBacklink, east.KindFootnoteList:
		return e.Footnote
	}
	return false
}

type astChecker struct {
	src   []byte
	ext   ExtKinds
	seen  map[ast.Node]bool
	stats ASTStats
	err   error
}

func (c *astChecker) fail(code string, n ast.Node, format string, args ...any) {
	if c.err == nil {
		kind := "<nil>"
		if n != nil {
			kind = n.Kind().String()
		}
		c.err = fmt.Errorf("%s: node %s: %s", code, kind, fmt.Sprintf(format, args...))
	}
}

func (c *astChecker) seg(n ast.Node, what string, s text.Segment) bool {
	if s.Start < 0 || s.Start > s.Stop || s.Stop > len(c.src) || s.Padding < 0 {
		c.fail("segment-range", n, "%s segment {%d,%d,pad %d} outside 0<=Start<=Stop<=%d", what, s.Start, s.Stop, s.Padding, len(c.src))
		return false
	}
	_ = s.Value(c.src)
	return true
}

// CheckAST validates the tree returned by Parse.
func CheckAST(doc ast.Node, src []byte, ext ExtKinds) (ASTStats, error) {
	c := &astChecker{src: src, ext: ext, seen: map[ast.Node]bool{}}
	c.stats.Kinds = map[string]int{}
	if doc == nil {
		return c.stats, fmt.Errorf("nil-document: Parse returned nil")
	}
	if doc.Kind() != ast.KindDocument || doc.Type() != ast.TypeDocument {
		c.fail("root", doc, "root is not a Document")
	}
	if doc.Parent() != nil {
		c.fail("root", doc, "root has a parent")
	}
	if doc.PreviousSibling() != nil || doc.NextSibling() != nil {
		c.fail("root", doc, "root has siblings")
	}
	c.node(doc, 1, false, false)
	return c.stats, c.err
}

func (c *astChecker) node(n ast.Node, depth int, inLink bool, inInline bool) {
	if c.err != nil {
		return
	}
	if depth > 100000 {
		c.fail("cycle", n, "depth exceeds 100000")
		return
	}
	if c.seen[n] {
		c.fail("shared-node", n, "node reachable twice")
		return
	}
	c.seen[n] = true
	c.stats.Nodes++
	if depth > c.stats.Depth {
		c.stats.Depth = depth
	}
	k := n.Kind()
	c.stats.Kinds[k.String()]++
	if !c.ext.allowed(k) {
		c.fail("kind", n, "kind %s is not a public kind of the enabled configuration", k.String())
		return
	}
	switch k {
	case east.KindTable, east.KindTableHeader, east.KindTableRow, east.KindTableCell, east.KindFootnote, east.KindFootnoteList,
		east.KindFootnoteBacklink, east.KindDefinitionList, east.KindDefinitionTerm, east.KindDefinitionDescription, ast.KindTextBlock:
		c.stats.Reparent = true
	case ast.KindHeading:
		if n.(*ast.Heading).Lines().Len() > 1 {
			c.stats.Reparent = true // setext with several lines
		}
	}

	// ---- child list consistency
	count := 0
	var prev ast.Node
	for ch := n.FirstChild(); ch != nil; ch = ch.NextSibling() {
		count++
		if count > 10000000 {
			c.fail("cycle", n, "sibling chain does not end")
			return
		}
		if ch.Parent() != n {
			c.fail("parent-link", ch, "child's Parent is not the node it is listed under (%s)", k.String())
			return
		}
		if ch.PreviousSibling() != prev {
			c.fail("sibling-link", ch, "PreviousSibling does not match the forward chain under %s", k.String())
			return
		}
		prev = ch
	}
	if n.LastChild() != prev {
		c.fail("last-child", n, "LastChild is not the end of the forward chain")
		return
	}
	if n.ChildCount() != count {
		c.fail("child-count", n, "ChildCount()=%d but %d children are linked", n.ChildCount(), count)
		return
	}
	if n.HasChildren() != (count > 0) {
		c.fail("has-children", n, "HasChildren()=%v with %d children", n.HasChildren(), count)
		return
	}

	// ---- type placement
	typ := n.Type()
	switch typ {
	case ast.TypeDocument:
		if depth != 1 {
			c.fail("placement", n, "Document below the root")
		}
	case ast.TypeBlock:
		if inInline {
			c.fail("placement", n, "block node below an inline node")
		}
	case ast.TypeInline:
		p := n.Parent()
		if p == nil || p.Type() == ast.TypeDocument {
			c.fail("placement", n, "inline node directly below the document")
		}
	default:
		c.fail("placement", n, "unknown node type %d", typ)
	}
	p := n.Parent()
	pk := ast.NodeKind(-1)
	if p != nil {
		pk = p.Kind()
	}
	switch k {
	case ast.KindListItem:
		if pk != ast.KindList {
			c.fail("placement", n, "ListItem outside a List (parent %v)", pk)
		}
	case east.KindTableRow, east.KindTableHeader:
		if pk != east.KindTable {
			c.fail("placement", n, "table row outside a Table")
		}
	case east.KindTableCell:
		if pk != east.KindTableRow && pk != east.KindTableHeader {
			c.fail("placement", n, "TableCell outside a row")
		}
	case east.KindDefinitionTerm, east.KindDefinitionDescription:
		if pk != east.KindDefinitionList {
			c.fail("placement", n, "definition term/description outside a DefinitionList")
		}
	case east.KindFootnote:
		if pk != east.KindFootnoteList {
			c.fail("placement", n, "Footnote outside a FootnoteList")
		}
	case ast.KindLink:
		if inLink {
			c.fail("nested-link", n, "Link inside a Link")
		}
	}
	switch k {
	case ast.KindList:
		for ch := n.FirstChild(); ch != nil; ch = ch.NextSibling() {
			if ch.Kind() != ast.KindListItem {
				c.fail("placement", n, "List child of kind %s", ch.Kind().String())
			}
		}
	case east.KindTable:
		i := 0
		for ch := n.FirstChild(); ch != nil; ch = ch.NextSibling() {
			if i == 0 && ch.Kind() != east.KindTableHeader {
				c.fail("placement", n, "first Table child is %s", ch.Kind().String())
			}
			if i > 0 && ch.Kind() != east.KindTableRow {
				c.fail("placement", n, "Table child %d is %s", i, ch.Kind().String())
			}
			i++
		}
	case ast.KindCodeSpan:
		for ch := n.FirstChild(); ch != nil; ch = ch.NextSibling() {
			if ch.Kind() != ast.KindText {
				c.fail("codespan-child", n, "CodeSpan child of kind %s", ch.Kind().String())
			}
		}
	case ast.KindHeading:
		if l := n.(*ast.Heading).Level; l < 1 || l > 6 {
			c.fail("heading-level", n, "level %d", l)
		}
	case ast.KindEmphasis:
		if l := n.(*ast.Emphasis).Level; l < 1 || l > 2 {
			c.fail("emphasis-level", n, "level %d", l)
		}
	}

	// ---- positions
	switch v := n.(type) {
	case *ast.Text:
		c.seg(n, "Text", v.Segment)
	case *ast.RawHTML:
		if v.Segments != nil {
			for i := 0; i < v.Segments.Len(); i++ {
				c.seg(n, "RawHTML", v.Segments.At(i))
			}
		}
	case *ast.HTMLBlock:
		if v.HasClosure() {
			c.seg(n, "ClosureLine", v.ClosureLine)
		}
	case *ast.FencedCodeBlock:
		if v.Info != nil {
			c.seg(n, "Info", v.Info.Segment)
		}
		_ = v.Language(c.src)
	case *ast.AutoLink:
		// the accessors slice the source with the recorded positions
		_ = v.URL(c.src)
		_ = v.Label(c.src)
	case *ast.CodeSpan:
		for ch := n.FirstChild(); ch != nil; ch = ch.NextSibling() {
			if t, ok := ch.(*ast.Text); ok {
				c.seg(ch, "CodeSpan text", t.Segment)
			}
		}
	}
	// the deprecated Text accessor still has to stay inside the source
	// (leaf nodes only: it recurses, and calling it on every ancestor would be quadratic)
	if !n.HasChildren() {
		_ = n.Text(c.src)
	}
	if typ == ast.TypeBlock || typ == ast.TypeDocument {
		if lines := n.Lines(); lines != nil && lines.Len() > 0 {
			last := -1
			for i := 0; i < lines.Len(); i++ {
				s := lines.At(i)
				if !c.seg(n, fmt.Sprintf("line %d", i), s) {
					return
				}
				if s.Start < last {
					c.fail("lines-order", n, "line %d {%d,%d} starts before the end %d of the previous line", i, s.Start, s.Stop, last)
					return
				}
				last = s.Stop
			}
			_ = lines.Value(c.src)
			// inline content lies in the block's lines, in document order
			if n.HasChildren() && n.FirstChild().Type() == ast.TypeInline {
				c.inlineOrder(n, lines)
			}
		}
	}
	if c.err != nil {
		return
	}
	childInLink := inLink || k == ast.KindLink
	childInInline := inInline || typ == ast.TypeInline
	for ch := n.FirstChild(); ch != nil; ch = ch.NextSibling() {
		c.node(ch, depth+1, childInLink, childInInline)
		if c.err != nil {
			return
		}
	}
}

func (c *astChecker) inlineOrder(block ast.Node, lines *text.Segments) {
	lo := lines.At(0).Start
	hi := lines.At(lines.Len() - 1).Stop
	pos := lo
	var walk func(n ast.Node)
	walk = func(n ast.Node) {
		for ch := n.FirstChild(); ch != nil && c.err == nil; ch = ch.NextSibling() {
			if ch.Type() != ast.TypeInline {
				continue
			}
			t, ok := ch.(*ast.Text)
			if a, isAuto := ch.(*ast.AutoLink); isAuto {
				// the position an autolink records is the Text node of its label (a private field, visible
				// through Label / URL): it is part of the block's inline content like any other segment
				t, ok = autoLinkText(a), true
				if t == nil {
					c.fail("autolink-label", ch, "AutoLink without a label node")
					return
				}
			}
			if ok {
				s := t.Segment
				if s.Start < 0 || s.Start > s.Stop || s.Stop > len(c.src) {
					c.fail("segment-range", ch, "Text segment {%d,%d} outside the source", s.Start, s.Stop)
					return
				}
				if s.Start < lo || s.Stop > hi {
					c.fail("text-outside-block", ch, "Text segment {%d,%d} outside the block's lines [%d,%d]", s.Start, s.Stop, lo, hi)
					return
				}
				if s.Start < pos {
					c.fail("text-order", ch, "Text segment {%d,%d} starts before the previous text ended (%d)", s.Start, s.Stop, pos)
					return
				}
				if s.Stop > s.Start {
					inside := false
					for i := 0; i < lines.Len(); i++ {
						l := lines.At(i)
						if s.Start >= l.Start && s.Stop <= l.Stop {
							inside = true
							break
						}
					}
					if !inside {
						c.fail("text-across-lines", ch, "Text segment {%d,%d} is not inside one line of its block", s.Start, s.Stop)
						return
					}
				}
				pos = s.Stop
			}
			walk(ch)
		}
	}
	walk(block)
}

// autoLinkText reads the unexported label node of an AutoLink.
func autoLinkText(a *ast.AutoLink) *ast.Text {
	f := reflect.ValueOf(a).Elem().FieldByName("value")
	if !f.IsValid() || f.Kind() != reflect.Ptr {
		return nil
	}
	return *(**ast.Text)(unsafe.Pointer(f.UnsafeAddr()))
}
