// Package c15: auto heading IDs are present, non-empty, unique within a
// document and independent of the conversion history.
package c15

import (
	"bytes"
	"fmt"
	"strconv"
	"strings"
	"testing"

	"pgregory.net/rapid"

	"verif/gen"
	"verif/kit"
	"verif/oracle"
)

func TestMain(m *testing.M) {
	kit.Register("ids", idsOracle)
	kit.Describe("case = (safe configuration with AutoHeadingID and without the Attribute option, list of documents converted one after the other on one instance); documents are built from a heading grammar (repeated, empty, punctuation-only, non-ASCII, suffix-colliding texts such as a / a-1 / a-1-1 / heading / heading-1, ATX and Setext, inside quotes and lists, inline markup, entities) interleaved with '{'-free soup; oracle on every output: every h1..h6 element has exactly one id attribute, it is non-empty, heading ids are pairwise distinct, and the list of ids equals the one a fresh instance produces for the same document; non-trivial = a document with >= 3 headings of which >= 2 have the same text or slug to a colliding id; distinct by hash of the case",
		"outputs are read with the strict HTML tokenizer (safe mode); a case whose output it rejects is skipped here and left to C03")
	kit.Main(m, "C15")
}

func headingIDs(out []byte) ([]string, int, error) {
	root, _, err := oracle.ParseStrict(out)
	if err != nil {
		return nil, 0, nil // C03's business
	}
	var ids []string
	n := 0
	for _, e := range root.All() {
		if len(e.Name) == 2 && e.Name[0] == 'h' && e.Name[1] >= '1' && e.Name[1] <= '6' {
			n++
			cnt := 0
			val := ""
			for _, a := range e.Attrs {
				if a.Name == "id" {
					cnt++
					val = a.Val
				}
			}
			if cnt != 1 {
				return nil, n, kit.Violf("heading-without-id", "<%s> (heading %d) carries %d id attributes in %q", e.Name, n, cnt, out)
			}
			if val == "" {
				return nil, n, kit.Violf("empty-id", "<%s> (heading %d) has an empty id in %q", e.Name, n, out)
			}
			ids = append(ids, val)
		}
	}
	seen := map[string]int{}
	for i, id := range ids {
		if j, ok := seen[id]; ok {
			return ids, n, kit.Violf("duplicate-id", "headings %d and %d share id %q in %q", j+1, i+1, id, out)
		}
		seen[id] = i
	}
	return ids, n, nil
}

var lastHeadings, lastCollisions int

func idsOracle(c *kit.Case) error {
	cfg := gen.ParseConfig(c.Config)
	cfg.AutoID, cfg.Attr, cfg.Unsafe = true, false, false
	nd := int(c.Ints["ndocs"])
	inst := cfg.Fresh()
	lastHeadings, lastCollisions = 0, 0
	for i := 0; i < nd; i++ {
		d := c.Bytes["d"+strconv.Itoa(i)]
		var b bytes.Buffer
		if err := inst.Convert(d, &b); err != nil {
			return kit.Violf("convert-error", "%v", err)
		}
		ids, n, err := headingIDs(b.Bytes())
		if err != nil {
			v := err.(*kit.Violation)
			v.Msg = fmt.Sprintf("document %d %q: %s", i, d, v.Msg)
			return v
		}
		var fb bytes.Buffer
		_ = cfg.Fresh().Convert(d, &fb)
		fids, _, _ := headingIDs(fb.Bytes())
		if strings.Join(ids, "\x00") != strings.Join(fids, "\x00") {
			return kit.Violf("history-dependent-ids", "document %d %q: ids %q after %d earlier conversions, %q on a fresh instance", i, d, ids, i, fids)
		}
		if n > lastHeadings {
			lastHeadings = n
			// collisions: ids that carry a numeric suffix added by the generator
			lastCollisions = 0
			base := map[string]bool{}
			for _, id := range ids {
				base[id] = true
			}
			for _, id := range ids {
				if k := strings.LastIndexByte(id, '-'); k > 0 && base[id[:k]] {
					lastCollisions++
				}
			}
		}
	}
	return nil
}

var hdToks = []string{"> ##\n", "- item\n\n  #\n", "#######\n", "######\n", "# a\n", "# a\n", "# a\n", "## a\n", "# a-1\n", "# a-1\n", "# A\n", "#\n", "# \n", "#\n", "# !!\n", "# ??\n", "# é\n", "# 日本\n", "a\n===\n", "a\n---\n", "a-1\n=\n", "> # a\n", "- # a\n", "  - a\n    =\n", "# a b\n", "# a_b\n", "# a  b\n",
	"# heading\n", "# heading-1\n", "# heading\n", "\n", "x\n", "# *a*\n", "# `a`\n", "# a #\n", "# 1\n", "# a-1-1\n", "1. # a\n", ">> a\n>> ==\n", "# a\\\n", "# &amp;\n", "# &#97;\n", "# [a](u)\n", "# ![a](u)\n", "###### a\n", "# a-2\n", "# -\n", "# a-\n", "# -a\n", "# heading-2\n", "#  \t\n", "a\nb\n===\n", "# <b>\n", "# a&b\n", "# \\#\n", "multi\nline\n-----\n", "# A-1\n", "# a--1\n"}

var noBrace = &gen.Profile{Name: "nobrace", ForbidBytes: "{"}

func drawHeadingDoc(t *rapid.T, label string) []byte {
	n := rapid.IntRange(1, 10).Draw(t, label+"n")
	var b []byte
	if rapid.IntRange(0, 7).Draw(t, label+"many") == 0 {
		// many headings: whatever keeps the ids may change its representation at some size (8, 16, 32, 64 entries)
		n = rapid.IntRange(12, 80).Draw(t, label+"nmany")
		distinct := rapid.IntRange(1, n).Draw(t, label+"distinct")
		for i := 0; i < n; i++ {
			k := rapid.IntRange(0, distinct).Draw(t, label+"title")
			switch {
			case k == distinct:
				b = append(b, rapid.SampledFrom(hdToks).Draw(t, label+"h")...)
			case i%2 == 0 || rapid.Bool().Draw(t, label+"seq"):
				b = append(b, ("# s" + strconv.Itoa(min(k, i)) + "\n")...) // mostly new titles first, repeats later
			default:
				b = append(b, ("s" + strconv.Itoa(k) + "\n---\n")...)
			}
		}
		return b
	}
	for i := 0; i < n; i++ {
		if rapid.IntRange(0, 5).Draw(t, label+"soup") == 0 {
			b = append(b, gen.Soup(t, noBrace, 6, label+"s")...)
			b = append(b, "\n\n"...)
			continue
		}
		b = append(b, rapid.SampledFrom(hdToks).Draw(t, label+"h")...)
		if rapid.Bool().Draw(t, label+"blank") {
			b = append(b, '\n')
		}
	}
	switch rapid.IntRange(0, 7).Draw(t, label+"end") {
	case 0, 1:
		// the document ends without a line ending: the last heading (possibly just its '#' run) meets the end of input
		b = bytes.TrimRight(b, "\n")
	case 2:
		b = gen.ByteMutate(t, noBrace, b, label+"bm")
	}
	return b
}

func TestKnown(t *testing.T)  { kit.RunKnown(t) }
func TestReplay(t *testing.T) { kit.RunReplay(t) }

func TestHeadingIDs(t *testing.T) {
	kit.Rapid(t, "ids", 150000, 8000000, func(t *rapid.T) {
		cfg := gen.DrawConfig(t, gen.ConfigOpts{SafeOnly: true, NoAttr: true, ForceAuto: true})
		nd := rapid.IntRange(1, 4).Draw(t, "ndocs")
		c := kit.NewCase("ids", cfg.String()).I("ndocs", int64(nd))
		for i := 0; i < nd; i++ {
			c.B("d"+strconv.Itoa(i), drawHeadingDoc(t, "d"+strconv.Itoa(i)))
		}
		if kit.Check(t, c) {
			kit.R.Class("documents-sequences")
			if nd > 1 {
				kit.R.Class("with-history")
			}
			if lastHeadings >= 3 && lastCollisions >= 1 {
				kit.R.NonTrivial(c)
				kit.R.Class("nontrivial")
			}
		}
	})
}
