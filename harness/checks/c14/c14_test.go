// Package c14: writer failures surface as errors and never corrupt what was
// written (fault enumeration over byte offsets).
package c14

import (
	"bufio"
	"bytes"
	"errors"
	"fmt"
	"io"
	"sync"
	"testing"

	"github.com/yuin/goldmark"
	"github.com/yuin/goldmark/ast"
	"github.com/yuin/goldmark/renderer"
	"github.com/yuin/goldmark/text"
	"github.com/yuin/goldmark/util"
	"pgregory.net/rapid"

	"verif/gen"
	"verif/kit"
)

func TestMain(m *testing.M) {
	kit.Register("faults", faultsOracle)
	kit.Describe("case = (configuration, optionally plus a user-supplied node renderer for ThematicBreak and CodeSpan that checks every write and returns the writer's error, document (large ones always contain a unit that reaches WriteRune / WriteByte / WriteString paths: numeric references to multi-byte code points, entities, titles, alt texts), API in {Convert, Parse+Render}, writer kind in {plain io.Writer, io.Writer that also has WriteByte/WriteString/WriteRune, the caller's own unbuffered util.BufWriter implementation (no sticky error), caller bufio of 16/4096/65536 bytes}, fault mode in {fail from offset k on, fail always, fail once then succeed}); for outputs <= 600 bytes every offset k in 0..len+1 is enumerated, for large outputs (5-40 KiB) every offset within 3 bytes of a multiple of 4096 plus an arithmetic grid drawn by the generator; oracle: writer reported failure => error non-nil and errors.Is(err, injected), bytes accepted before the first failure are a prefix of the fault-free output, no panic; no failure => nil error and identical bytes; after all fault runs of a case the same instance converts a further document and must agree with a fresh instance; evaluations = fault runs; non-trivial = a case with at least one offset strictly inside the output; distinct by hash of the case",
		"the injected error is compared with errors.Is; its identity is a case dimension: a private sentinel, io.ErrShortWrite (plain and wrapped), io.EOF, io.ErrUnexpectedEOF, io.ErrClosedPipe, an error with Timeout/Temporary methods", "a fault run that does not terminate (watchdog, reproduced in isolation) is a violation: Convert has to return the error")
	kit.Main(m, "C14")
}

var errInjected = errors.New("injected writer failure")

// tempErr looks like a net.Error that calls itself temporary: retrying on it must not be attempted blindly.
type tempErr struct{}

func (tempErr) Error() string   { return "injected temporary failure" }
func (tempErr) Timeout() bool   { return true }
func (tempErr) Temporary() bool { return true }

// injectedErrors: the identity of the writer's error must not matter; several of them are values the standard
// library itself gives a meaning to (bufio returns io.ErrShortWrite on its own account, io.EOF ends readers).
var injectedErrors = []error{errInjected, io.ErrShortWrite, io.EOF, fmt.Errorf("disk quota: %w", io.ErrShortWrite), io.ErrClosedPipe, tempErr{}, io.ErrUnexpectedEOF}

type faultWriter struct {
	err      error // the error this writer fails with
	k        int   // total bytes accepted before failing
	mode     int   // 0 fail from k on, 1 fail always, 2 fail once at k then succeed
	accepted []byte
	prefix   int // len(accepted) at the first failure
	failed   bool
	failures int
}

func (w *faultWriter) Write(p []byte) (int, error) {
	switch w.mode {
	case 1:
		if !w.failed {
			w.failed = true
			w.prefix = len(w.accepted)
		}
		w.failures++
		return 0, w.err
	case 2:
		if !w.failed && len(w.accepted)+len(p) > w.k {
			n := w.k - len(w.accepted)
			w.accepted = append(w.accepted, p[:n]...)
			w.failed = true
			w.prefix = len(w.accepted)
			w.failures++
			return n, w.err
		}
		w.accepted = append(w.accepted, p...)
		return len(p), nil
	}
	if w.failed {
		w.failures++
		return 0, w.err
	}
	if len(w.accepted)+len(p) > w.k {
		n := w.k - len(w.accepted)
		w.accepted = append(w.accepted, p[:n]...)
		w.failed = true
		w.prefix = len(w.accepted)
		w.failures++
		return n, w.err
	}
	w.accepted = append(w.accepted, p...)
	return len(p), nil
}

// richWriter is a destination that, like bytes.Buffer or strings.Builder,
// also offers WriteByte / WriteString / WriteRune (but is not a util.BufWriter).
type richWriter struct{ *faultWriter }

func (w richWriter) WriteByte(c byte) error {
	_, err := w.faultWriter.Write([]byte{c})
	return err
}
func (w richWriter) WriteString(s string) (int, error) { return w.faultWriter.Write([]byte(s)) }
func (w richWriter) WriteRune(r rune) (int, error)     { return w.faultWriter.Write([]byte(string(r))) }

// ownBufWriter is a destination that satisfies util.BufWriter itself - a caller's own buffered-writer type - but,
// unlike bufio.Writer, does not remember a failure: every call is passed straight on and Flush has nothing pending.
// Render uses such a destination directly instead of wrapping it.
type ownBufWriter struct{ *faultWriter }

func (w ownBufWriter) Available() int { return 0 }
func (w ownBufWriter) Buffered() int  { return 0 }
func (w ownBufWriter) Flush() error   { return nil }
func (w ownBufWriter) WriteByte(c byte) error {
	_, err := w.faultWriter.Write([]byte{c})
	return err
}
func (w ownBufWriter) WriteString(s string) (int, error) { return w.faultWriter.Write([]byte(s)) }
func (w ownBufWriter) WriteRune(r rune) (int, error)     { return w.faultWriter.Write([]byte(string(r))) }

var _ util.BufWriter = ownBufWriter{}

// strictRenderer is a user-supplied node renderer that, unlike the built-in ones, checks the result of
// every write and returns the writer's error to Render (the documented way for a NodeRendererFunc to fail).
type strictRenderer struct{}

func (strictRenderer) RegisterFuncs(reg renderer.NodeRendererFuncRegisterer) {
	reg.Register(ast.KindThematicBreak, func(w util.BufWriter, source []byte, n ast.Node, entering bool) (ast.WalkStatus, error) {
		if !entering {
			return ast.WalkContinue, nil
		}
		if _, err := w.WriteString("<hr>"); err != nil {
			return ast.WalkStop, err
		}
		if err := w.WriteByte('\n'); err != nil {
			return ast.WalkStop, err
		}
		return ast.WalkContinue, nil
	})
	reg.Register(ast.KindCodeSpan, func(w util.BufWriter, source []byte, n ast.Node, entering bool) (ast.WalkStatus, error) {
		tag := "<code>"
		if !entering {
			tag = "</code>"
		}
		if _, err := w.Write([]byte(tag)); err != nil {
			return ast.WalkContinue, err // an error with a non-stop status must end the walk as well
		}
		return ast.WalkContinue, nil
	})
}

var (
	strictMu sync.Mutex
	strictMD = map[gen.Config]goldmark.Markdown{}
)

func mdFor(cfg gen.Config, strict bool) goldmark.Markdown {
	if !strict {
		return cfg.MD()
	}
	strictMu.Lock()
	defer strictMu.Unlock()
	if m, ok := strictMD[cfg]; ok {
		return m
	}
	m := goldmark.New(
		goldmark.WithExtensions(cfg.Extensions()...),
		goldmark.WithParserOptions(cfg.ParserOptions()...),
		goldmark.WithRendererOptions(append(cfg.RendererOptions(), renderer.WithNodeRenderers(util.Prioritized(strictRenderer{}, 1)))...),
	)
	strictMD[cfg] = m
	return m
}

func runOnce(cfg gen.Config, src []byte, api, wrap int, fw *faultWriter, strict bool) (err error) {
	md := mdFor(cfg, strict)
	var w io.Writer = fw
	if wrap == -1 {
		w = richWriter{fw}
	}
	if wrap == -2 {
		w = ownBufWriter{fw}
	}
	var bw *bufio.Writer
	if wrap > 0 {
		bw = bufio.NewWriterSize(fw, wrap)
		w = bw
	}
	if api == 0 {
		err = md.Convert(src, w)
	} else {
		doc := md.Parser().Parse(text.NewReader(src))
		err = md.Renderer().Render(w, src, doc)
	}
	return err
}

var lastRuns, lastInterior int

func offsets(outLen int, c *kit.Case) []int {
	var ks []int
	if outLen <= 600 {
		for k := 0; k <= outLen+1; k++ {
			ks = append(ks, k)
		}
		return ks
	}
	seen := map[int]bool{}
	add := func(k int) {
		if k >= 0 && k <= outLen+1 && !seen[k] {
			seen[k] = true
			ks = append(ks, k)
		}
	}
	for m := 0; m <= outLen+4096; m += 4096 {
		for d := -3; d <= 3; d++ {
			add(m + d)
		}
	}
	add(outLen - 1)
	add(outLen)
	add(outLen + 1)
	stride := int(c.Ints["stride"])
	if stride < 1 {
		stride = 97
	}
	if stride < outLen/250 {
		stride = outLen / 250
	}
	for k := int(c.Ints["phase"]); k <= outLen; k += stride {
		add(k)
	}
	return ks
}

func faultsOracle(c *kit.Case) error {
	cfg := gen.ParseConfig(c.Config)
	src := c.Bytes["src"]
	if rep := int(c.Ints["repeat"]); rep > 1 {
		src = bytes.Repeat(src, rep)
	}
	api, wrap, mode := int(c.Ints["api"]), int(c.Ints["wrap"]), int(c.Ints["mode"])
	strict := c.Ints["strict"] != 0
	injected := injectedErrors[int(c.Ints["errkind"])%len(injectedErrors)]
	var ref bytes.Buffer
	if err := mdFor(cfg, strict).Convert(src, &ref); err != nil {
		return kit.Violf("convert-error", "fault-free conversion failed: %v", err)
	}
	out := ref.Bytes()
	lastRuns, lastInterior = 0, 0
	ks := offsets(len(out), c)
	if mode == 1 {
		ks = []int{0}
	}
	for _, k := range ks {
		fw := &faultWriter{k: k, mode: mode, err: injected}
		lastRuns++
		if k > 0 && k < len(out) {
			lastInterior++
		}
		var err error
		func() {
			defer func() {
				if r := recover(); r != nil {
					err = kit.Violf("panic", "panic with fault offset %d: %v", k, r)
				}
			}()
			err2 := runOnce(cfg, src, api, wrap, fw, strict)
			if fw.failed {
				if err2 == nil {
					err = kit.Violf("error-swallowed", "writer failed at offset %d (mode %d, bufio %d, api %d) but nil was returned; output length %d", k, mode, wrap, api, len(out))
					return
				}
				if !errors.Is(err2, injected) {
					err = kit.Violf("error-replaced", "writer failed at offset %d but the returned error %q does not wrap the writer's error", k, err2)
					return
				}
				if fw.prefix > len(out) || !bytes.Equal(fw.accepted[:fw.prefix], out[:fw.prefix]) {
					err = kit.Violf("not-a-prefix", "fault offset %d: bytes accepted before the failure %q are not a prefix of the fault-free output %q", k, clip(fw.accepted[:fw.prefix]), clip(out))
					return
				}
			} else {
				if err2 != nil {
					err = kit.Violf("spurious-error", "writer never failed (offset %d beyond output %d) but %v was returned", k, len(out), err2)
					return
				}
				if !bytes.Equal(fw.accepted, out) {
					err = kit.Violf("output-differs", "fault offset %d beyond the output: writer received %q, fault-free output %q", k, clip(fw.accepted), clip(out))
					return
				}
			}
		}()
		if err != nil {
			return err
		}
	}
	// aftermath: the failed runs above were calls on a long-lived instance; whatever an aborted walk or a
	// half-flushed buffer left behind must not reach the next, healthy, conversion of another document
	if api == 0 {
		next := append([]byte("# another document\n\n"), src...)
		var got, want bytes.Buffer
		if err := mdFor(cfg, strict).Convert(next, &got); err != nil {
			return kit.Violf("aftermath-error", "a conversion after failed ones returned %v", err)
		}
		var fresh = cfg.Fresh()
		if strict {
			fresh = nil
		}
		if fresh != nil {
			_ = fresh.Convert(next, &want)
			if !bytes.Equal(got.Bytes(), want.Bytes()) {
				return kit.Violf("aftermath-differs", "after conversions into a failing writer the same instance renders the next document differently from a fresh instance:\n got   %q\n fresh %q", clip(got.Bytes()), clip(want.Bytes()))
			}
		}
	}
	return nil
}

func clip(b []byte) string {
	if len(b) > 300 {
		return fmt.Sprintf("%s...(%d bytes)", b[:300], len(b))
	}
	return string(b)
}

var richUnits = []string{
	"caf&#233; &#x4e2d;&#25991; &#128512; &auml;&ouml; &lt;&amp;&quot; \\* \\_ <b>raw</b> \"q\" 'a'\n\n",
	"[l&#233;](u&#233; \"t&#233;&#x4e2d;\") ![a&#233;*e*](s%20&#x4e2d; 't<>&') <http://e.x/&#233;> `c&#233;<>`\n\n***\n\n",
	"# h&#233; {#i&#233;}\n\n> q&#128512;\n\n- i&#x10FFFF;&#0;&#xD800;\n\n```l&#233;\nx&#233;<\n```\n\n    c<&#233;\n\n---\n\n",
	"| a&#233; | `b\\|c` |\n|:--|--:|\n| &#x4e2d; | ~~d&#233;~~ |\n\nf[^1] www.e&#233;.com -- \"q&#233;\"...\n\n[^1]: n&#233;\n\nt\n: d&#233;\n\n- [x] k&#233;\n\n",
	"日本&#233;\n語 \\ &#233;  \nx\\\ny <!-- c&#233; --> <?p&#233;?>\n\n<div>\nh&#233;\n</div>\n\n___\n\n",
	"f[^t] g[^u]\n\n[^t]: note &#233;\n\n    | a | b |\n    |:--|--:|\n    | 1 | 2 |\n\n    - [x] k\n\n[^u]: other[^t]\n\n",
}

// configurations whose renderers keep state between nodes (id prefix function, table alignment, footnote lists):
// an aborted walk is most likely to leave something behind there
var statefulConfigs = []gen.Config{
	{Table: true, Footnote: true, FnPrefix: 5},
	{GFM: true, Footnote: true, FnPrefix: 5, DefList: true, Typo: true, AutoID: true},
	{Table: true, TableAlign: 2, Footnote: true, FnPrefix: 4, Attr: true},
}

func TestKnown(t *testing.T)  { kit.RunKnown(t) }
func TestReplay(t *testing.T) { kit.RunReplay(t) }

func TestFaults(t *testing.T) {
	kit.Rapid(t, "faults", 1200, 80000, func(t *rapid.T) {
		cfg := gen.DrawConfig(t, gen.ConfigOpts{})
		stateful := rapid.IntRange(0, 3).Draw(t, "stateful") == 0
		if stateful {
			cfg = rapid.SampledFrom(statefulConfigs).Draw(t, "scfg")
		}
		src, class := gen.Doc(t, gen.Any, 24, "d")
		c := kit.NewCase("faults", cfg.String()).B("src", src)
		c.I("api", int64(rapid.IntRange(0, 1).Draw(t, "api")))
		c.I("wrap", int64(rapid.SampledFrom([]int{0, 0, -1, -2, 16, 4096, 65536}).Draw(t, "wrap")))
		c.I("mode", int64(rapid.SampledFrom([]int{0, 0, 0, 0, 1, 2}).Draw(t, "mode")))
		if rapid.IntRange(0, 3).Draw(t, "strict") == 0 {
			c.I("strict", 1)
		}
		if ek := rapid.SampledFrom([]int{0, 0, 0, 1, 1, 2, 3, 4, 5, 6}).Draw(t, "errkind"); ek != 0 {
			c.I("errkind", int64(ek))
		}
		large := rapid.IntRange(0, 5).Draw(t, "large") == 0 || (stateful && rapid.Bool().Draw(t, "slarge"))
		if large {
			// large documents are repetitions of a repository test input (benign
			// nesting, so that hundreds of conversions stay fast): 5-12 KiB of source
			src = gen.SeedDoc(t, "largeseed")
			if len(src) < 8 {
				src = append(src, "\n\nparagraph *text* `code` [l](u)\n\n"...)
			}
			if len(src) > 2000 {
				src = src[:2000]
			}
			if !bytes.HasSuffix(src, []byte("\n")) {
				src = append(src, '\n')
			}
			src = append(src, '\n')
			// every large document also carries a unit that drives each writer method the renderers use
			// (WriteRune through numeric references to multi-byte code points, WriteByte/WriteString through
			// escapes, titles, alt texts, entities), so that all of them run after the failure as well
			if stateful {
				src = append(src, richUnits[len(richUnits)-1]...) // table inside a footnote: the list renderer's state spans many nodes
			} else {
				src = append(src, rapid.SampledFrom(richUnits).Draw(t, "rich")...)
			}
			c.B("src", src)
			rep := (5000 + rapid.IntRange(0, 7000).Draw(t, "size")) / len(src)
			if rep < 2 {
				rep = 2
			}
			c.I("repeat", int64(rep))
			c.I("stride", int64(rapid.IntRange(53, 211).Draw(t, "stride")))
			c.I("phase", int64(rapid.IntRange(0, 210).Draw(t, "phase")))
			class = "large"
		}
		lastRuns, lastInterior = 0, 0
		ok := kit.Check(t, c)
		kit.R.Eval(lastRuns - 1)
		if ok {
			kit.R.Class("gen:" + class)
			kit.R.ClassN("fault-runs", int64(lastRuns))
			kit.R.ClassN("fault-runs-interior-offset", int64(lastInterior))
			kit.R.Class(fmt.Sprintf("mode:%d", c.Ints["mode"]), fmt.Sprintf("bufio:%d", c.Ints["wrap"]), fmt.Sprintf("error-identity:%d", c.Ints["errkind"]))
			if c.Ints["strict"] != 0 {
				kit.R.Class("error-propagating-custom-renderer")
			}
			if lastInterior > 0 {
				kit.R.NonTrivial(c)
			}
			if large {
				kit.R.Class("offsets>=4096")
			}
		}
	})
}
