// Package c08: prefixing every line with "> " wraps the same content in a
// block quote.
package c08

import (
	"bytes"
	"strings"
	"testing"

	"github.com/yuin/goldmark/ast"
	"github.com/yuin/goldmark/text"
	"pgregory.net/rapid"

	"verif/gen"
	"verif/kit"
)

func TestMain(m *testing.M) {
	kit.Register("quote", quoteOracle)
	kit.SetClassifier(classify)
	kit.Register("quote-spec", quoteSpecOracle)
	kit.Describe("case = (configuration in {core,GFM} x {safe,unsafe,xhtml}, non-blank TAB/CR-free document D, n in 1..3); oracle: Convert(q^n(D)) == '<blockquote>\\n'^n + Convert(D) + '</blockquote>\\n'^n with q prefixing every line by '> '; for the spec examples without TAB/CR the expected side is spec.json's html; non-trivial = D has >= 2 lines and its tree contains a container or a multi-line leaf block; distinct by hash of (configuration, D, n)",
		"'line' = maximal run ending in LF (or the unterminated rest); blank documents are not generated")
	kit.Main(m, "C08")
}

func quote(d []byte) []byte {
	var out []byte
	for len(d) > 0 {
		i := bytes.IndexByte(d, '\n')
		var line []byte
		if i < 0 {
			line, d = d, nil
		} else {
			line, d = d[:i+1], d[i+1:]
		}
		out = append(out, "> "...)
		out = append(out, line...)
	}
	return out
}

func conv(cfg gen.Config, src []byte) ([]byte, error) {
	var b bytes.Buffer
	err := cfg.MD().Convert(src, &b)
	return b.Bytes(), err
}

// classify: known finding F38. The link parser gives up on a ']' when the first and the last still-unmatched
// '[' of the paragraph are more than 998 source bytes apart (a guard against deeply nested brackets that quotes the
// 999-character limit of link labels). The distance is taken in source offsets, so the "> " in front of every line
// between the two brackets counts: a link that follows two unmatched openers is recognised in D and not in the
// quoted D. Signature: D holds two '[' with at least one line ending between them whose distance is at most 998
// in D and more than 998 once 2n bytes per line ending are added (n = number of quote levels).
func classify(c *kit.Case, err error) string {
	v, ok := err.(*kit.Violation)
	if !ok || v.Code != "quote-differs" {
		return ""
	}
	d := c.Bytes["src"]
	n := int(c.Ints["n"])
	if n < 1 {
		n = 1
	}
	var pos []int
	for i, b := range d {
		if b == '[' {
			pos = append(pos, i)
		}
	}
	for i := 0; i < len(pos); i++ {
		for j := i + 1; j < len(pos); j++ {
			nl := bytes.Count(d[pos[i]:pos[j]], []byte("\n"))
			dist := pos[j] + 1 - pos[i]
			if nl > 0 && dist <= 999 && dist+2*n*nl+1 > 998 {
				return "F38"
			}
		}
	}
	return ""
}

func quoteOracle(c *kit.Case) error {
	cfg := gen.ParseConfig(c.Config)
	d := c.Bytes["src"]
	n := int(c.Ints["n"])
	if n < 1 {
		n = 1
	}
	inner, err := conv(cfg, d)
	if err != nil {
		return kit.Violf("convert-error", "%v", err)
	}
	q := d
	for i := 0; i < n; i++ {
		q = quote(q)
	}
	got, err := conv(cfg, q)
	if err != nil {
		return kit.Violf("convert-error", "%v", err)
	}
	want := strings.Repeat("<blockquote>\n", n) + string(inner) + strings.Repeat("</blockquote>\n", n)
	if string(got) != want {
		return kit.Violf("quote-differs", "quoted source %q\n got  %q\n want %q", q, got, want)
	}
	return nil
}

func quoteSpecOracle(c *kit.Case) error {
	cfg := gen.Config{Unsafe: true, XHTML: true}
	d := c.Bytes["src"]
	got, err := conv(cfg, quote(d))
	if err != nil {
		return kit.Violf("convert-error", "%v", err)
	}
	want := "<blockquote>\n" + string(c.Bytes["html"]) + "</blockquote>\n"
	if string(got) != want {
		return kit.Violf("quote-spec-differs", "spec example %d quoted: %q\n got  %q\n want %q", c.Ints["example"], quote(d), got, want)
	}
	return nil
}

var noTabCR = &gen.Profile{Name: "notabcr", ForbidBytes: "\t\r"}

func interesting(cfg gen.Config, d []byte) (bool, string) {
	if bytes.Count(d, []byte("\n")) < 1 {
		return false, ""
	}
	doc := cfg.MD().Parser().Parse(text.NewReader(d))
	hit, kind := false, ""
	_ = ast.Walk(doc, func(n ast.Node, entering bool) (ast.WalkStatus, error) {
		if !entering || n.Type() != ast.TypeBlock {
			return ast.WalkContinue, nil
		}
		switch n.Kind() {
		case ast.KindBlockquote, ast.KindList:
			hit, kind = true, n.Kind().String()
		default:
			if l := n.Lines(); l != nil && l.Len() >= 2 {
				hit, kind = true, n.Kind().String()
			}
			if h, ok := n.(*ast.HTMLBlock); ok && h.HasClosure() {
				hit, kind = true, "HTMLBlock"
			}
		}
		return ast.WalkContinue, nil
	})
	return hit, kind
}

var configs = []gen.Config{{}, {Unsafe: true}, {XHTML: true}, {Unsafe: true, XHTML: true}, {GFM: true}, {GFM: true, Unsafe: true}, {GFM: true, XHTML: true}, {GFM: true, Unsafe: true, XHTML: true}}

func nonBlank(d []byte) []byte {
	if len(bytes.TrimSpace(d)) == 0 {
		return append(d, 'a')
	}
	return d
}

func TestKnown(t *testing.T)  { kit.RunKnown(t) }
func TestReplay(t *testing.T) { kit.RunReplay(t) }

func TestQuote(t *testing.T) {
	kit.Rapid(t, "quote", 400000, 16000000, func(t *rapid.T) {
		cfg := rapid.SampledFrom(configs).Draw(t, "cfg")
		d, class := gen.Doc(t, noTabCR, kit.Pick(30, 80), "d")
		d = nonBlank(d)
		n := 1
		if rapid.IntRange(0, 5).Draw(t, "deep") == 0 {
			n = rapid.IntRange(2, 3).Draw(t, "n")
		}
		c := kit.NewCase("quote", cfg.String()).B("src", d).I("n", int64(n))
		if kit.Check(t, c) {
			kit.R.Class("gen:" + class)
			if ok, kind := interesting(cfg, d); ok {
				kit.R.NonTrivial(c)
				kit.R.Class("nontrivial", "leaf:"+kind)
			}
		}
	})
}

// TestQuoteSpec enumerates every spec example without TAB/CR; the expected
// side comes from spec.json, not from goldmark.
func TestQuoteSpec(t *testing.T) {
	n := 0
	for i, e := range gen.Spec() {
		if strings.ContainsAny(e.Markdown, "\t\r") || strings.TrimSpace(e.Markdown) == "" {
			continue
		}
		n++
		if !kit.Mine(i) {
			continue
		}
		c := kit.NewCase("quote-spec", "unsafe+xhtml").B("src", []byte(e.Markdown)).B("html", []byte(e.HTML)).I("example", int64(e.Example))
		if kit.Check(t, c) {
			kit.R.Class("gen:spec")
			kit.R.NonTrivial(c)
		}
	}
	kit.R.Note("spec_examples_enumerated", n)
}

// TestQuoteConstructs applies the relation to the construct-adjacency
// documents (pairs/triples of block constructs) that contain no TAB/CR.
func TestQuoteConstructs(t *testing.T) {
	cfgs := []gen.Config{{}, {GFM: true, Unsafe: true}}
	n := gen.EnumConstructDocs(kit.Thorough(), func(idx int, doc []byte) {
		if !kit.Mine(idx) || bytes.ContainsAny(doc, "\t\r") || len(bytes.TrimSpace(doc)) == 0 {
			return
		}
		for _, cfg := range cfgs {
			c := kit.NewCase("quote", cfg.String()).B("src", doc).I("n", 1)
			if kit.Check(t, c) {
				kit.R.Class("gen:exhaustive-constructs")
				kit.R.NonTrivial(c)
			}
		}
	})
	kit.R.Note("exhaustive_constructs", n)
}
