// Package c18: Reader, BlockReader and Segment behave as a cursor over the source.
package c18

import (
	"bytes"
	"fmt"
	"strconv"
	"strings"
	"testing"

	"github.com/yuin/goldmark/text"
	"pgregory.net/rapid"

	"verif/kit"
)

func TestMain(m *testing.M) {
	kit.Register("cursor", cursorOracle)
	kit.Register("segment", segmentOracle)
	kit.Describe("case = (source over {a,b,space,TAB,LF,CR,e-acute,[,],`,\\}, reader kind: source Reader or BlockReader over an increasing list of segments each inside one line with optional start/end trimming and padding 1..3, operation list: PeekLine, Peek, Advance(n<=remaining), AdvanceLine, Position (saved), SetPosition(saved), LineOffset, SetPadding, AdvanceAndSetPadding, Value, FindClosure (all options), SkipSpaces, SkipBlankLines, ReadRune, PrecendingCharacter, ResetPosition); oracle = flat cursor model (line index, start offset, remaining padding); every call must not panic and Position stays inside the source. Bounded-exhaustive part: all sources up to length 3 (quick) / 4 (thorough) over a 7-symbol alphabet x all sequences up to length 3 over 8 core actions x reader kinds. Segment arithmetic is checked as pure functions. non-trivial = the sequence crosses a line by Advance or restores a position on another line, on a source with >= 2 lines or a TAB; distinct by hash of the case",
		"LineOffset is measured from the line head the reader defines (line start for Reader, segment start for BlockReader)", "BlockReader.Value is compared for whole-line segments and for ranges inside one line (from the line start with part of its padding, or from a later byte without padding)")
	kit.Main(m, "C18")
}

type seg = text.Segment

type model struct {
	src   []byte
	segs  []seg
	block bool
	line  int
	start int
	pad   int
}

func srcLines(src []byte) []seg {
	var segs []seg
	start := 0
	for i, c := range src {
		if c == '\n' {
			segs = append(segs, text.NewSegment(start, i+1))
			start = i + 1
		}
	}
	if start < len(src) {
		segs = append(segs, text.NewSegment(start, len(src)))
	}
	return segs
}

func (m *model) eof() bool { return m.line >= len(m.segs) }
func (m *model) enter(line int) {
	m.line = line
	if !m.eof() {
		m.start, m.pad = m.segs[line].Start, m.segs[line].Padding
	}
}
func (m *model) view() []byte {
	if m.eof() {
		return nil
	}
	return append(bytes.Repeat([]byte(" "), m.pad), m.src[m.start:m.segs[m.line].Stop]...)
}
func (m *model) rest() []byte { // concatenated remaining view
	if m.eof() {
		return nil
	}
	out := m.view()
	for i := m.line + 1; i < len(m.segs); i++ {
		s := m.segs[i]
		out = append(out, bytes.Repeat([]byte(" "), s.Padding)...)
		out = append(out, m.src[s.Start:s.Stop]...)
	}
	return out
}
func (m *model) advance(n int) (crossed bool) {
	for ; n > 0 && !m.eof(); n-- {
		if m.pad > 0 {
			m.pad--
			continue
		}
		m.start++
		if m.start >= m.segs[m.line].Stop {
			m.enter(m.line + 1)
			crossed = true
		}
	}
	return
}
func (m *model) head() int {
	s := m.segs[m.line]
	if m.block {
		return s.Start
	}
	h := s.Start
	for h > 0 && m.src[h-1] != '\n' {
		h--
	}
	return h
}
func (m *model) lineOffset() int {
	v := 0
	for i := m.head(); i < m.start; i++ {
		if m.src[i] == '\t' {
			v += 4 - v%4
		} else {
			v++
		}
	}
	return v - m.pad
}

type saved struct {
	l          int
	p          seg
	ml, ms, mp int
}

type stats struct {
	crossed, restoredOtherLine bool
	ops                        int
}

var last stats

func parseSegs(s string) []seg {
	var out []seg
	for _, f := range strings.Split(s, ";") {
		if f == "" {
			continue
		}
		p := strings.Split(f, ",")
		if len(p) != 3 {
			continue
		}
		a, _ := strconv.Atoi(p[0])
		b, _ := strconv.Atoi(p[1])
		c, _ := strconv.Atoi(p[2])
		out = append(out, text.NewSegmentPadding(a, b, c))
	}
	return out
}

// validSegs: increasing, non-empty, each inside one source line.
func validSegs(src []byte, segs []seg) bool {
	prev := 0
	for _, s := range segs {
		if s.Start < prev || s.Start >= s.Stop || s.Stop > len(src) || s.Padding < 0 {
			return false
		}
		if i := bytes.IndexByte(src[s.Start:s.Stop], '\n'); i >= 0 && s.Start+i != s.Stop-1 {
			return false
		}
		prev = s.Stop
	}
	return true
}

func cursorOracle(c *kit.Case) error {
	src := c.Bytes["src"]
	block := c.Ints["block"] != 0
	m := &model{src: src, block: block}
	var rd text.Reader
	if block {
		m.segs = parseSegs(c.Strs["segs"])
		if !validSegs(src, m.segs) {
			return nil
		}
		ss := text.NewSegments()
		for _, s := range m.segs {
			ss.Append(s)
		}
		rd = text.NewBlockReader(src, ss)
	} else {
		m.segs = srcLines(src)
		rd = text.NewReader(src)
	}
	m.enter(0)
	last = stats{}
	var sv []saved
	ops := strings.Fields(c.Strs["ops"])
	var trace []string
	fail := func(code, format string, args ...any) error {
		return kit.Violf(code, "%s\n after: %s", fmt.Sprintf(format, args...), strings.Join(trace, " "))
	}
	checkPos := func() error {
		_, p := rd.Position()
		if !m.eof() || p.Start >= 0 {
			if p.Start > len(src) || p.Stop > len(src) || (p.Start < 0 && !(block && len(m.segs) == 0)) {
				return fail("position-range", "Position %v outside the source (length %d)", p, len(src))
			}
		}
		return nil
	}
	arg := func(op string, k int) []int {
		var out []int
		for _, f := range strings.Split(op[k:], ",") {
			v, _ := strconv.Atoi(f)
			out = append(out, v)
		}
		for len(out) < 2 {
			out = append(out, 0)
		}
		return out
	}
	syncFromReal := func() {
		l, p := rd.Position()
		m.line = l
		if !m.block {
			// the source reader numbers lines by newline count; find the segment containing p.Start
			m.line = len(m.segs)
			for i, s := range m.segs {
				if p.Start >= s.Start && p.Start < s.Stop {
					m.line = i
					break
				}
			}
		}
		if !m.eof() {
			m.start, m.pad = p.Start, p.Padding
			if m.start >= m.segs[m.line].Stop || m.start < m.segs[m.line].Start {
				m.line = len(m.segs)
			}
		}
	}
	for _, op := range ops {
		trace = append(trace, op)
		last.ops++
		switch {
		case op == "PL":
			got, _ := rd.PeekLine()
			want := m.view()
			if !bytes.Equal(got, want) || (got == nil) != (want == nil) {
				return fail("peekline", "PeekLine returned %q, cursor model %q", got, want)
			}
		case op == "PK":
			got := rd.Peek()
			want := text.EOF
			if v := m.view(); len(v) > 0 {
				want = v[0]
			}
			if got != want {
				return fail("peek", "Peek returned %q, cursor model %q", got, want)
			}
		case strings.HasPrefix(op, "AP"):
			a := arg(op, 2)
			rem := len(m.rest())
			if rem == 0 {
				continue
			}
			n := 1 + a[0]%rem
			rd.AdvanceAndSetPadding(n, a[1])
			if m.advance(n) {
				last.crossed = true
			}
			if !m.eof() && a[1] > m.pad {
				m.pad = a[1]
			}
		case op == "AL":
			rd.AdvanceLine()
			if !m.eof() {
				m.enter(m.line + 1)
			}
		case strings.HasPrefix(op, "A"):
			a := arg(op, 1)
			rem := len(m.rest())
			if rem == 0 {
				continue
			}
			n := 1 + a[0]%rem
			rd.Advance(n)
			if m.advance(n) {
				last.crossed = true
			}
		case op == "PO":
			l, p := rd.Position()
			sv = append(sv, saved{l, p, m.line, m.start, m.pad})
		case strings.HasPrefix(op, "SP"):
			if len(sv) == 0 {
				continue
			}
			s := sv[arg(op, 2)[0]%len(sv)]
			rd.SetPosition(s.l, s.p)
			if s.ml != m.line {
				last.restoredOtherLine = true
			}
			m.line, m.start, m.pad = s.ml, s.ms, s.mp
		case op == "LO":
			if m.eof() {
				continue
			}
			got := rd.LineOffset()
			if want := m.lineOffset(); got != want {
				return fail("lineoffset", "LineOffset returned %d, cursor model %d", got, want)
			}
		case strings.HasPrefix(op, "PD"):
			if m.eof() {
				continue
			}
			p := arg(op, 2)[0] % 4
			rd.SetPadding(p)
			m.pad = p
		case strings.HasPrefix(op, "FC"):
			bits := arg(op, 2)[0]
			opts := text.FindClosureOptions{Nesting: bits&1 != 0, Newline: bits&2 != 0, CodeSpan: bits&4 != 0, Advance: bits&8 != 0}
			l0, p0 := rd.Position()
			before := m.rest()
			segs, found := rd.FindClosure('[', ']', opts)
			l1, p1 := rd.Position()
			if found {
				// what it returns are positions as well: inside the source, and the last one ends at the closer it reports
				for i := 0; i < segs.Len(); i++ {
					if sg := segs.At(i); sg.Start < 0 || sg.Start > sg.Stop || sg.Stop > len(src) {
						return fail("findclosure-segment", "FindClosure returned the segment %v for a source of %d bytes", sg, len(src))
					}
				}
				if last := segs.At(segs.Len() - 1); last.Stop >= len(src) || src[last.Stop] != ']' {
					return fail("findclosure-segment", "FindClosure reported a closer, but its last segment %v does not end at a ']'", last)
				}
			}
			if !opts.Advance {
				if l0 != l1 || p0 != p1 {
					return fail("findclosure-moved", "FindClosure without Advance changed the position from %d,%v to %d,%v", l0, p0, l1, p1)
				}
			} else if found {
				syncFromReal()
				after := m.rest()
				k := len(before) - len(after)
				if k < 1 || k > len(before) || before[k-1] != ']' || !bytes.Equal(before[k:], after) {
					return fail("findclosure-advance", "FindClosure with Advance reported a closer but the reader went from %q to %q", before, after)
				}
			} else {
				syncFromReal()
			}
		case op == "SS":
			cnt := 0
			for {
				v := m.view()
				if len(v) == 0 {
					break
				}
				if ch := v[0]; ch == ' ' || ch == '\t' || ch == '\n' || ch == '\r' || ch == '\f' || ch == '\v' {
					m.advance(1)
					cnt++
					continue
				}
				break
			}
			sg, n, ok := rd.SkipSpaces()
			if n != cnt || ok == m.eof() {
				return fail("skipspaces", "SkipSpaces consumed %d (more input: %v), maximal run is %d (more input: %v)", n, ok, cnt, !m.eof())
			}
			if ok && (sg.Start < 0 || sg.Start > sg.Stop || sg.Stop > len(src)) {
				return fail("skipspaces-segment", "SkipSpaces returned the segment %v for a source of %d bytes", sg, len(src))
			}
		case op == "SB":
			cnt := 0
			for !m.eof() {
				v := m.view()
				blank := true
				for _, ch := range v {
					if !(ch == ' ' || ch == '\t' || ch == '\n' || ch == '\r' || ch == '\f' || ch == '\v') {
						blank = false
					}
				}
				if !blank {
					break
				}
				m.enter(m.line + 1)
				cnt++
			}
			sg, n, ok := rd.SkipBlankLines()
			if ok && (sg.Start < 0 || sg.Start > sg.Stop || sg.Stop > len(src)) {
				return fail("skipblanklines-segment", "SkipBlankLines returned the segment %v for a source of %d bytes", sg, len(src))
			}
			if n != cnt || ok == m.eof() {
				return fail("skipblanklines", "SkipBlankLines skipped %d (more input: %v), model %d (more input: %v)", n, ok, cnt, !m.eof())
			}
		case op == "RR":
			_, sz, err := rd.ReadRune()
			if err == nil {
				m.advance(sz)
			}
		case op == "PC":
			_ = rd.PrecendingCharacter()
		case op == "RP":
			rd.ResetPosition()
			m.enter(0)
			sv = nil
		case strings.HasPrefix(op, "V"):
			a := arg(op, 1)
			if len(m.segs) == 0 {
				continue
			}
			s := m.segs[a[0]%len(m.segs)]
			// the segments whose own value is unambiguous: a whole line, and any range inside one line - from the
			// line's start with part of the line's padding still in front (what Position returns while the
			// padding is being consumed), or from a later byte without padding; ending at or before the line's end
			n := s.Stop - s.Start
			switch mode, v := a[1]%4, a[1]/4; {
			case mode == 1 && n >= 2:
				s = text.NewSegment(s.Start+1+v%(n-1), s.Stop)
			case mode == 2 && s.Padding > 0:
				s = text.NewSegmentPadding(s.Start, s.Stop, v%(s.Padding+1))
			case mode == 3 && n >= 3:
				o := 1 + v%(n-2)
				s = text.NewSegment(s.Start+o, s.Stop-1-(v/7)%(n-o-1))
			}
			got := rd.Value(s)
			if want := s.Value(src); !bytes.Equal(got, want) {
				return fail("value", "Value(%v) returned %q, the segment's own value is %q", s, got, want)
			}
		}
		if err := checkPos(); err != nil {
			return err
		}
	}
	return nil
}

// ---- Segment arithmetic as pure functions

func segmentOracle(c *kit.Case) error {
	src := c.Bytes["src"]
	a, b, p := int(c.Ints["a"]), int(c.Ints["b"]), int(c.Ints["p"])
	if a < 0 || a > b || b > len(src) {
		return nil
	}
	s := text.NewSegmentPadding(a, b, p)
	want := append(bytes.Repeat([]byte(" "), p), src[a:b]...)
	if got := s.Value(src); !bytes.Equal(got, want) {
		return kit.Violf("segment-value", "%v.Value = %q want %q", s, got, want)
	}
	if s.Len() != len(want) {
		return kit.Violf("segment-len", "%v.Len() = %d want %d", s, s.Len(), len(want))
	}
	if s.IsEmpty() != (a == b && p == 0) {
		return kit.Violf("segment-isempty", "%v.IsEmpty() = %v", s, s.IsEmpty())
	}
	x := int(c.Ints["x"])
	if x >= a && x <= b {
		if t := s.WithStart(x); t.Start != x || t.Stop != b || t.Padding != p {
			return kit.Violf("segment-withstart", "%v.WithStart(%d) = %v", s, x, t)
		}
		if t := s.WithStop(x); t.Start != a || t.Stop != x || t.Padding != p {
			return kit.Violf("segment-withstop", "%v.WithStop(%d) = %v", s, x, t)
		}
		o := text.NewSegment(x, b)
		if t := s.Between(o); p == 0 && (t.Start != a || t.Stop != x) {
			return kit.Violf("segment-between", "%v.Between(%v) = %v want {%d %d}", s, o, t, a, x)
		}
	}
	isSp := func(ch byte) bool {
		return ch == ' ' || ch == '\t' || ch == '\n' || ch == '\r' || ch == '\f' || ch == '\v'
	}
	u := text.NewSegment(a, b)
	l := a
	for l < b && isSp(src[l]) {
		l++
	}
	r := b
	for r > a && isSp(src[r-1]) {
		r--
	}
	if t := u.TrimLeftSpace(src); t.Start != l || t.Stop != b {
		return kit.Violf("segment-trimleft", "%v.TrimLeftSpace = %v want start %d", u, t, l)
	}
	if t := u.TrimRightSpace(src); t.Start != a || t.Stop != r {
		return kit.Violf("segment-trimright", "%v.TrimRightSpace = %v want stop %d", u, t, r)
	}
	return nil
}

func TestKnown(t *testing.T)  { kit.RunKnown(t) }
func TestReplay(t *testing.T) { kit.RunReplay(t) }

var alpha = []string{"a", "b", " ", "\t", "\n", "\r", "é", "[", "]", "`", "\\", "\n", " ", "[", "]"}

func drawSrc(t *rapid.T, max int) []byte {
	idx := rapid.SliceOfN(rapid.IntRange(0, len(alpha)-1), 0, max).Draw(t, "src")
	var b []byte
	for _, i := range idx {
		b = append(b, alpha[i]...)
	}
	return b
}

func drawSegs(t *rapid.T, src []byte) string {
	var parts []string
	for _, l := range srcLines(src) {
		if rapid.IntRange(0, 3).Draw(t, "skip") == 0 {
			continue
		}
		s, e := l.Start, l.Stop
		if e-s > 1 && rapid.IntRange(0, 2).Draw(t, "ts") == 0 {
			s += rapid.IntRange(0, e-s-2).Draw(t, "tsn") + 1
		}
		if e-s > 1 && rapid.IntRange(0, 2).Draw(t, "te") == 0 {
			e -= 1 + rapid.IntRange(0, e-s-2).Draw(t, "ten")
		}
		pad := 0
		if rapid.IntRange(0, 3).Draw(t, "pad") == 0 {
			pad = rapid.IntRange(1, 3).Draw(t, "padn")
		}
		parts = append(parts, fmt.Sprintf("%d,%d,%d", s, e, pad))
	}
	return strings.Join(parts, ";")
}

var opKinds = []string{"PL", "PL", "PK", "A", "A", "A", "AL", "PO", "PO", "SP", "SP", "LO", "LO", "PD", "AP", "FC", "FC", "SS", "SB", "RR", "PC", "RP", "V"}

func drawOps(t *rapid.T, max int) string {
	n := rapid.IntRange(1, max).Draw(t, "nops")
	var ops []string
	for i := 0; i < n; i++ {
		k := rapid.SampledFrom(opKinds).Draw(t, "op")
		switch k {
		case "A":
			v := rapid.IntRange(0, 40).Draw(t, "n")
			if rapid.Bool().Draw(t, "small") {
				v %= 3
			}
			k = fmt.Sprintf("A%d", v)
		case "SP":
			k = fmt.Sprintf("SP%d", rapid.IntRange(0, 7).Draw(t, "which"))
		case "PD":
			k = fmt.Sprintf("PD%d", rapid.IntRange(0, 3).Draw(t, "p"))
		case "AP":
			k = fmt.Sprintf("AP%d,%d", rapid.IntRange(0, 10).Draw(t, "n"), rapid.IntRange(0, 3).Draw(t, "p"))
		case "FC":
			k = fmt.Sprintf("FC%d", rapid.IntRange(0, 15).Draw(t, "bits"))
		case "V":
			k = fmt.Sprintf("V%d,%d", rapid.IntRange(0, 9).Draw(t, "line"), rapid.IntRange(0, 39).Draw(t, "sub"))
		}
		ops = append(ops, k)
	}
	return strings.Join(ops, " ")
}

func record(c *kit.Case, src []byte) {
	kit.R.ClassN("operations", int64(last.ops))
	multi := bytes.Count(src, []byte("\n")) >= 1 && len(src) > bytes.IndexByte(src, '\n')+1 || bytes.IndexByte(src, '\t') >= 0
	if (last.crossed || last.restoredOtherLine) && multi {
		kit.R.NonTrivial(c)
	}
}

func TestCursor(t *testing.T) {
	kit.Rapid(t, "cursor", 500000, 20000000, func(t *rapid.T) {
		src := drawSrc(t, kit.Pick(12, 40))
		c := kit.NewCase("cursor", "").B("src", src)
		if rapid.Bool().Draw(t, "block") {
			c.I("block", 1).S("segs", drawSegs(t, src))
			kit.R.Class("blockreader")
		} else {
			c.I("block", 0)
			kit.R.Class("reader")
		}
		c.S("ops", drawOps(t, kit.Pick(12, 24)))
		if kit.Check(t, c) {
			record(c, src)
		}
	})
}

func TestSegment(t *testing.T) {
	kit.Rapid(t, "segment", 50000, 2000000, func(t *rapid.T) {
		src := drawSrc(t, 12)
		a := rapid.IntRange(0, len(src)).Draw(t, "a")
		b := rapid.IntRange(a, len(src)).Draw(t, "b")
		c := kit.NewCase("segment", "").B("src", src).I("a", int64(a)).I("b", int64(b)).I("p", int64(rapid.IntRange(0, 3).Draw(t, "p"))).I("x", int64(rapid.IntRange(a, b).Draw(t, "x")))
		if kit.Check(t, c) && b > a {
			kit.R.Class("segment-arithmetic")
		}
	})
}

var exhAlpha = []string{"a", " ", "\t", "\n", "é", "[", "]"}
var exhOps = []string{"PL", "PK", "A0", "A1", "AL", "PO", "SP0", "LO"}

// TestExhaustive: all sources up to length L over a 7-symbol alphabet x all
// sequences up to length 3 over 8 core actions x {Reader, BlockReader on the
// whole lines, BlockReader on lines trimmed by one byte with padding 2}.
func TestExhaustive(t *testing.T) {
	L := kit.Pick(3, 4)
	var seqs []string
	for _, a := range exhOps {
		seqs = append(seqs, a)
		for _, b := range exhOps {
			seqs = append(seqs, a+" "+b)
			for _, c := range exhOps {
				seqs = append(seqs, a+" "+b+" "+c)
			}
		}
	}
	n := len(exhAlpha)
	idx := 0
	count := int64(0)
	for l := 0; l <= L; l++ {
		total := 1
		for i := 0; i < l; i++ {
			total *= n
		}
		for v := 0; v < total; v++ {
			idx++
			if !kit.Mine(idx) {
				continue
			}
			var src []byte
			x := v
			for i := 0; i < l; i++ {
				src = append(src, exhAlpha[x%n]...)
				x /= n
			}
			lines := srcLines(src)
			var whole, trimmed []string
			for _, s := range lines {
				whole = append(whole, fmt.Sprintf("%d,%d,0", s.Start, s.Stop))
				if s.Stop-s.Start >= 2 {
					trimmed = append(trimmed, fmt.Sprintf("%d,%d,2", s.Start+1, s.Stop))
				}
			}
			for _, ops := range seqs {
				for kind := 0; kind < 3; kind++ {
					c := kit.NewCase("cursor", "").B("src", src).S("ops", ops)
					switch kind {
					case 0:
						c.I("block", 0)
					case 1:
						c.I("block", 1).S("segs", strings.Join(whole, ";"))
					case 2:
						if len(trimmed) == 0 {
							continue
						}
						c.I("block", 1).S("segs", strings.Join(trimmed, ";"))
					}
					if !kit.Check(t, c) {
						return
					}
					count++
					if count%32 == 0 {
						record(c, src)
					}
				}
			}
		}
	}
	kit.R.ClassN("exhaustive-sequences", count)
	kit.R.Note("exhaustive", true)
	kit.R.Note("exhaustive_what", fmt.Sprintf("all sources of length <= %d over a 7-symbol alphabet x all sequences of length <= 3 over 8 core actions x 3 reader shapes (every 32nd case is entered into the distinct set)", L))
}
