// Package c12: the source buffer is never written (read-only pages with
// read-only spare capacity; canaries on ordinary memory).
package c12

import (
	"bytes"
	"fmt"
	"os"
	"runtime/debug"
	"syscall"
	"testing"

	"github.com/yuin/goldmark/ast"
	"github.com/yuin/goldmark/text"
	"github.com/yuin/goldmark/util"
	"pgregory.net/rapid"

	"verif/gen"
	"verif/kit"
)

func TestMain(m *testing.M) {
	kit.Register("readonly", readonlyOracle)
	kit.Register("util", utilOracle)
	kit.Describe("conversion: case = (configuration, source, page offset, spare capacity): the source is copied into an anonymous mmap region that is then mprotect'ed PROT_READ, handed over as a sub-slice whose spare capacity is read-only too, and Convert / Parse+Render run under debug.SetPanicOnFault (any store faults -> violation); the same source is also run inside an ordinary buffer between canary bytes that are compared afterwards. util: case = (function name, input bytes) for EscapeHTML, UnescapePunctuations, ResolveNumericReferences, ResolveEntityNames, URLEscape (both modes), DoFullUnicodeCaseFolding, ReplaceSpaces, ToLinkReference, Trim*, VisualizeSpaces, called on read-only memory. non-trivial = conversion whose tree contains a code block, padded segment, link, heading attribute or raw HTML; util call whose output differs from its input; distinct by hash of the case",
		"linux/amd64: syscall.Mmap/Mprotect and debug.SetPanicOnFault; a self-test proves that a store into the protected region is detected")
	kit.Main(m, "C12")
}

var pageSize = os.Getpagesize()

// protect copies data into fresh pages, makes them read-only and returns a
// slice with the requested read-only spare capacity plus a release function.
func protect(data []byte, off, spare int) ([]byte, func()) {
	total := off + len(data) + spare
	n := (total/pageSize + 1) * pageSize
	region, err := syscall.Mmap(-1, 0, n, syscall.PROT_READ|syscall.PROT_WRITE, syscall.MAP_ANON|syscall.MAP_PRIVATE)
	if err != nil {
		panic("harness: mmap: " + err.Error())
	}
	for i := range region {
		region[i] = 0xA5
	}
	copy(region[off:], data)
	if err := syscall.Mprotect(region, syscall.PROT_READ); err != nil {
		panic("harness: mprotect: " + err.Error())
	}
	s := region[off : off+len(data) : off+len(data)+spare]
	return s, func() { _ = syscall.Munmap(region) }
}

// guarded runs f with faults turned into panics and reports a fault.
func guarded(f func()) (fault any) {
	old := debug.SetPanicOnFault(true)
	defer debug.SetPanicOnFault(old)
	defer func() {
		if r := recover(); r != nil {
			fault = r
		}
	}()
	f()
	return nil
}

var lastTransforming bool

func readonlyOracle(c *kit.Case) error {
	cfg := gen.ParseConfig(c.Config)
	src := c.Bytes["src"]
	off, spare := int(c.Ints["off"]), int(c.Ints["spare"])
	ro, release := protect(src, off, spare)
	defer release()
	md := cfg.MD()
	var out1 bytes.Buffer
	var doc ast.Node
	if f := guarded(func() {
		if err := md.Convert(ro, &out1); err != nil {
			panic(err)
		}
		doc = md.Parser().Parse(text.NewReader(ro))
		var out2 bytes.Buffer
		_ = md.Renderer().Render(&out2, ro, doc)
		// legacy accessors that build values from the source
		_ = ast.Walk(doc, func(n ast.Node, entering bool) (ast.WalkStatus, error) {
			if entering {
				if n.Type() == ast.TypeBlock && n.Lines() != nil {
					_ = n.Lines().Value(ro)
				}
				_ = n.Text(ro)
			}
			return ast.WalkContinue, nil
		})
	}); f != nil {
		return kit.Violf("write-fault", "conversion of a read-only source (len %d, cap %d) faulted or panicked: %v", len(ro), cap(ro), f)
	}
	// ordinary memory with canaries
	buf := make([]byte, 16+len(src)+spare+16)
	for i := range buf {
		buf[i] = 0xC3
	}
	copy(buf[16:], src)
	before := append([]byte(nil), buf...)
	s := buf[16 : 16+len(src) : 16+len(src)+spare]
	var out3 bytes.Buffer
	_ = md.Convert(s, &out3)
	d2 := md.Parser().Parse(text.NewReader(s))
	_ = ast.Walk(d2, func(n ast.Node, entering bool) (ast.WalkStatus, error) {
		if entering {
			if n.Type() == ast.TypeBlock && n.Lines() != nil {
				_ = n.Lines().Value(s)
			}
			_ = n.Text(s)
		}
		return ast.WalkContinue, nil
	})
	if !bytes.Equal(buf, before) {
		i := 0
		for i < len(buf) && buf[i] == before[i] {
			i++
		}
		return kit.Violf("source-modified", "byte %d of the caller's buffer (source occupies [16,%d), capacity up to %d) changed from %#x to %#x", i, 16+len(src), 16+len(src)+spare, before[i], buf[i])
	}
	if !bytes.Equal(out1.Bytes(), out3.Bytes()) {
		return kit.Violf("output-depends-on-memory", "read-only run gave %q, ordinary run %q", out1.Bytes(), out3.Bytes())
	}
	lastTransforming = false
	_ = ast.Walk(doc, func(n ast.Node, entering bool) (ast.WalkStatus, error) {
		if entering {
			switch n.Kind() {
			case ast.KindCodeBlock, ast.KindFencedCodeBlock, ast.KindLink, ast.KindImage, ast.KindHTMLBlock, ast.KindRawHTML, ast.KindAutoLink:
				lastTransforming = true
			case ast.KindHeading:
				if n.Attributes() != nil {
					lastTransforming = true
				}
			}
			if n.Type() == ast.TypeBlock && n.Lines() != nil {
				for i := 0; i < n.Lines().Len(); i++ {
					if n.Lines().At(i).Padding > 0 {
						lastTransforming = true
					}
				}
			}
		}
		return ast.WalkContinue, nil
	})
	return nil
}

var utilFuncs = map[string]func([]byte) []byte{
	"EscapeHTML":               util.EscapeHTML,
	"UnescapePunctuations":     util.UnescapePunctuations,
	"ResolveNumericReferences": util.ResolveNumericReferences,
	"ResolveEntityNames":       util.ResolveEntityNames,
	"URLEscape(false)":         func(b []byte) []byte { return util.URLEscape(b, false) },
	"URLEscape(true)":          func(b []byte) []byte { return util.URLEscape(b, true) },
	"DoFullUnicodeCaseFolding": util.DoFullUnicodeCaseFolding,
	"ReplaceSpaces":            func(b []byte) []byte { return util.ReplaceSpaces(b, '-') },
	"ToLinkReference":          func(b []byte) []byte { return []byte(util.ToLinkReference(b)) },
	"TrimLeftSpace":            util.TrimLeftSpace,
	"TrimRightSpace":           util.TrimRightSpace,
	"TrimLeft":                 func(b []byte) []byte { return util.TrimLeft(b, []byte(" a")) },
	"TrimRight":                func(b []byte) []byte { return util.TrimRight(b, []byte(" a\n")) },
	"VisualizeSpaces":          util.VisualizeSpaces,
	"Segment.Value(ForceNewline)": func(b []byte) []byte {
		s := text.NewSegment(0, len(b))
		s.ForceNewline = true
		return s.Value(b)
	},
	"Segment.Value(Padding)": func(b []byte) []byte { s := text.NewSegmentPadding(0, len(b), 3); return s.Value(b) },
	"Segments.Value": func(b []byte) []byte {
		ss := text.NewSegments()
		ss.Append(text.NewSegment(0, len(b)/2))
		s := text.NewSegment(len(b)/2, len(b))
		s.ForceNewline = true
		ss.Append(s)
		return ss.Value(b)
	},
}

var utilNames []string

func init() {
	for k := range utilFuncs {
		utilNames = append(utilNames, k)
	}
	// deterministic order
	for i := range utilNames {
		for j := i + 1; j < len(utilNames); j++ {
			if utilNames[j] < utilNames[i] {
				utilNames[i], utilNames[j] = utilNames[j], utilNames[i]
			}
		}
	}
}

var lastChanged bool

func utilOracle(c *kit.Case) error {
	f := utilFuncs[c.Strs["fn"]]
	if f == nil {
		return fmt.Errorf("harness: unknown util function %q", c.Strs["fn"])
	}
	src := c.Bytes["src"]
	ro, release := protect(src, int(c.Ints["off"]), int(c.Ints["spare"]))
	defer release()
	var out []byte
	if fault := guarded(func() { out = append([]byte(nil), f(ro)...) }); fault != nil {
		return kit.Violf("write-fault", "%s on a read-only input faulted or panicked: %v", c.Strs["fn"], fault)
	}
	buf := make([]byte, 8+len(src)+8)
	for i := range buf {
		buf[i] = 0xC3
	}
	copy(buf[8:], src)
	before := append([]byte(nil), buf...)
	out2 := f(buf[8 : 8+len(src) : len(buf)])
	out2 = append([]byte(nil), out2...)
	if !bytes.Equal(buf, before) {
		return kit.Violf("input-modified", "%s modified its argument or the bytes around it", c.Strs["fn"])
	}
	if !bytes.Equal(out, out2) {
		return kit.Violf("output-depends-on-memory", "%s: %q vs %q", c.Strs["fn"], out, out2)
	}
	lastChanged = !bytes.Equal(out, src)
	return nil
}

// TestSelfCheck proves that the detector works: a harness-owned store into
// the protected region must be reported as a fault.
func TestSelfCheck(t *testing.T) {
	ro, release := protect([]byte("abc"), 5, 4)
	defer release()
	if f := guarded(func() { ro[1] = 'x' }); f == nil {
		fmt.Println("HARNESS-ERROR C12 store into a read-only page was not detected")
		t.Fail()
	}
	if f := guarded(func() { _ = append(ro, 'x') }); f == nil {
		fmt.Println("HARNESS-ERROR C12 append into read-only spare capacity was not detected")
		t.Fail()
	}
	if f := guarded(func() { _ = ro[0] + ro[2] }); f != nil {
		fmt.Println("HARNESS-ERROR C12 reading the protected region faulted")
		t.Fail()
	}
}

func TestKnown(t *testing.T)  { kit.RunKnown(t) }
func TestReplay(t *testing.T) { kit.RunReplay(t) }

var endings = []string{"", "", "\n", "    code", "\tcode", "```\ncode", "~~~\nx\n  y", "- a\n\n      code", "> ```\n> a", "<div>\nx", "[a]: /u 'T", "| a | b |\n|---|---|\n| c", "# h {#i}", "[^1]: x\n    y"}

func TestReadOnly(t *testing.T) {
	kit.Rapid(t, "readonly", 200000, 10000000, func(t *rapid.T) {
		cfg := gen.DrawConfig(t, gen.ConfigOpts{})
		src, class := gen.Doc(t, gen.Any, kit.Pick(30, 80), "d")
		// documents that end without a newline inside a block are the ones
		// where goldmark synthesises bytes: bias towards them
		if rapid.Bool().Draw(t, "ending") {
			src = append(bytes.TrimRight(src, "\n"), "\n"...)
			src = append(src, rapid.SampledFrom(endings).Draw(t, "end")...)
		}
		c := kit.NewCase("readonly", cfg.String()).B("src", src)
		c.I("off", int64(rapid.IntRange(0, 64).Draw(t, "off")))
		c.I("spare", int64(rapid.SampledFrom([]int{0, 1, 1, 2, 7, 64, 4096}).Draw(t, "spare")))
		lastTransforming = false
		if kit.Check(t, c) {
			kit.R.Class("gen:" + class)
			if lastTransforming {
				kit.R.NonTrivial(c)
				kit.R.Class("nontrivial")
			}
		}
	})
}

var utilSoup = &gen.Profile{Name: "util", Extra: []string{"&amp;", "&#65;", "&#x41;", "&#0;", "&ouml;", "%20", "%4g", "%", "\\*", "\\\\", " ", "\t", "\n", "A", "ß", "İ", "<", ">", "\"", "&", "  ", "a"}}

func TestUtil(t *testing.T) {
	kit.Rapid(t, "util", 200000, 8000000, func(t *rapid.T) {
		fn := rapid.SampledFrom(utilNames).Draw(t, "fn")
		var src []byte
		if rapid.Bool().Draw(t, "bytes") {
			src = rapid.SliceOfN(rapid.Byte(), 0, 40).Draw(t, "raw")
		} else {
			src = gen.Soup(t, utilSoup, 12, "s")
		}
		c := kit.NewCase("util", "").B("src", src).S("fn", fn)
		c.I("off", int64(rapid.IntRange(0, 16).Draw(t, "off")))
		c.I("spare", int64(rapid.SampledFrom([]int{0, 1, 3, 64}).Draw(t, "spare")))
		lastChanged = false
		if kit.Check(t, c) {
			kit.R.Class("util:" + fn)
			if lastChanged {
				kit.R.NonTrivial(c)
				kit.R.Class("util-transforming")
			}
		}
	})
}

// TestReadOnlyConstructs converts the construct-adjacency documents from read-only memory.
func TestReadOnlyConstructs(t *testing.T) {
	cfgs := []gen.Config{{}, {GFM: true, DefList: true, Footnote: true, Typo: true, CJK: 1, AutoID: true, Attr: true, Unsafe: true}}
	n := gen.EnumConstructDocs(kit.Thorough(), func(idx int, doc []byte) {
		if !kit.Mine(idx) {
			return
		}
		for _, cfg := range cfgs {
			c := kit.NewCase("readonly", cfg.String()).B("src", doc).I("off", int64(idx%7)).I("spare", int64(idx%3))
			lastTransforming = false
			if kit.Check(t, c) && lastTransforming {
				kit.R.NonTrivial(c)
			}
		}
	})
	kit.R.Note("exhaustive_constructs", n)
}

func FuzzReadOnly(f *testing.F) {
	for _, e := range gen.Spec() {
		f.Add(uint16(0), []byte(e.Markdown))
	}
	for _, e := range endings {
		f.Add(uint16(0x3f), []byte("a\n\n"+e))
	}
	f.Fuzz(func(t *testing.T, cfgBits uint16, src []byte) {
		if len(src) > 8192 {
			return
		}
		c := kit.NewCase("readonly", gen.ConfigFromBits(uint32(cfgBits)).String()).B("src", src).I("off", 3).I("spare", 5)
		lastTransforming = false
		if kit.Check(t, c) && lastTransforming {
			kit.R.NonTrivial(c)
		}
	})
}
