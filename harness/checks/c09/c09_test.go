// Package c09: closed blocks render independently; reference definitions
// work from anywhere.
package c09

import (
	"bytes"
	"fmt"
	"strconv"
	"strings"
	"testing"
	"unicode"

	"github.com/yuin/goldmark/ast"
	"github.com/yuin/goldmark/text"
	"pgregory.net/rapid"

	"verif/gen"
	"verif/kit"
)

func TestMain(m *testing.M) {
	kit.Register("concat", concatOracle)
	kit.Register("defs", defsOracle)
	kit.Describe("part 1: case = (configuration in {core,GFM} x {safe,unsafe}, A, heading line H, B), CR-free and '['-free, A closed by construction (soup that cannot open a fence/HTML block + generated closed blocks, last non-blank line indented < 4 columns, or a spec example that does not end in an open block); oracle Convert(A + blank + H + blank + B) == Convert(A) + Convert(H) + Convert(B); non-trivial = A and B both produce a block and the last block of A or the first of B is a list, fenced/indented code, HTML block, block quote, setext heading or table. part 2: case = (configuration, closed document D with references to fresh labels in full/collapsed/shortcut form and case/whitespace variants, definition block Defs); oracle Convert(Defs + blank + D) == Convert(D + blank + Defs); non-trivial = at least one of the generated references resolved to a link; distinct by hash of the case",
		"'no link reference syntax' is enforced as 'no [ byte' in part 1", "closedness of A is established syntactically, never by asking goldmark")
	kit.Main(m, "C09")
}

func conv(cfg gen.Config, src []byte) ([]byte, error) {
	var b bytes.Buffer
	err := cfg.MD().Convert(src, &b)
	return b.Bytes(), err
}

func concatOracle(c *kit.Case) error {
	cfg := gen.ParseConfig(c.Config)
	a, h, b := c.Bytes["a"], c.Bytes["h"], c.Bytes["b"]
	ra, err := conv(cfg, a)
	if err != nil {
		return kit.Violf("convert-error", "%v", err)
	}
	rh, _ := conv(cfg, append(append([]byte{}, h...), '\n'))
	rb, err := conv(cfg, b)
	if err != nil {
		return kit.Violf("convert-error", "%v", err)
	}
	whole := append(append(append(append(append([]byte{}, a...), "\n\n"...), h...), "\n\n"...), b...)
	got, err := conv(cfg, whole)
	if err != nil {
		return kit.Violf("convert-error", "%v", err)
	}
	want := string(ra) + string(rh) + string(rb)
	if string(got) != want {
		return kit.Violf("concat-differs", "whole %q\n got  %q\n want %q", whole, got, want)
	}
	return nil
}

func defsOracle(c *kit.Case) error {
	cfg := gen.ParseConfig(c.Config)
	d, defs := c.Bytes["d"], c.Bytes["defs"]
	top := append(append(append([]byte{}, defs...), '\n'), d...)
	bottom := append(append(append([]byte{}, d...), "\n\n"...), defs...)
	r1, err := conv(cfg, top)
	if err != nil {
		return kit.Violf("convert-error", "%v", err)
	}
	r2, err := conv(cfg, bottom)
	if err != nil {
		return kit.Violf("convert-error", "%v", err)
	}
	if !bytes.Equal(r1, r2) {
		return kit.Violf("defs-position", "definitions first %q -> %q\ndefinitions last %q -> %q", top, r1, bottom, r2)
	}
	return nil
}

var configs = []gen.Config{{}, {Unsafe: true}, {GFM: true}, {GFM: true, Unsafe: true}, {XHTML: true, Unsafe: true}}

var noBracketNoCR = &gen.Profile{Name: "nobracket", ForbidBytes: "[\r"}

var words = []string{"alpha", "beta", "gamma", "x", "Title 1", "a b c", "h"}

func firstLastKinds(cfg gen.Config, src []byte) (first, last string, n int) {
	doc := cfg.MD().Parser().Parse(text.NewReader(src))
	for c := doc.FirstChild(); c != nil; c = c.NextSibling() {
		if n == 0 {
			first = c.Kind().String()
		}
		last = c.Kind().String()
		if h, ok := c.(*ast.Heading); ok && h.Lines().Len() > 0 && c.Kind() == ast.KindHeading {
			// setext headings keep cross-line state; mark them
			if l := h.Lines().At(h.Lines().Len() - 1); l.Stop < len(src) && !bytes.HasPrefix(bytes.TrimLeft(src[h.Lines().At(0).Start-min(h.Lines().At(0).Start, 4):], " "), []byte("#")) {
				last = "SetextHeading"
			}
		}
		n++
	}
	return
}

func min(a, b int) int {
	if a < b {
		return a
	}
	return b
}

var stateful = map[string]bool{"List": true, "FencedCodeBlock": true, "CodeBlock": true, "HTMLBlock": true, "Blockquote": true, "SetextHeading": true, "Table": true}

// specClosed lists spec examples usable as A: no '[', no CR, not ending inside an open block.
var openEnded = map[int]bool{126: true, 127: true, 137: true, 139: true, 173: true, 237: true}

func specA() [][]byte {
	var out [][]byte
	for _, e := range gen.Spec() {
		if strings.ContainsAny(e.Markdown, "[\r") || openEnded[e.Example] {
			continue
		}
		// syntactic cross-check of the list above: last fence opener without closer, or unclosed type 1-5 HTML start
		if !syntacticallyClosed(e.Markdown) {
			continue
		}
		out = append(out, []byte(e.Markdown))
	}
	return out
}

func syntacticallyClosed(md string) bool {
	lines := strings.Split(md, "\n")
	fence := ""
	for _, l := range lines {
		tl := strings.TrimLeft(l, " >")
		if fence == "" {
			if strings.HasPrefix(tl, "```") || strings.HasPrefix(tl, "~~~") {
				fence = tl[:3]
			}
		} else if strings.HasPrefix(tl, fence) && strings.Trim(tl, "`~ ") == "" {
			fence = ""
		}
	}
	if fence != "" {
		return false
	}
	for _, pair := range [][2]string{{"<!--", "-->"}, {"<?", "?>"}, {"<![CDATA[", "]]>"}, {"<script", "</script>"}, {"<pre", "</pre>"}, {"<style", "</style>"}, {"<textarea", "</textarea>"}} {
		if i := strings.LastIndex(strings.ToLower(md), pair[0]); i >= 0 && !strings.Contains(strings.ToLower(md[i:]), pair[1]) {
			return false
		}
	}
	// last non-blank line indented < 4
	for i := len(lines) - 1; i >= 0; i-- {
		if strings.TrimSpace(lines[i]) == "" {
			continue
		}
		l := strings.ReplaceAll(lines[i], "\t", "    ")
		return len(l)-len(strings.TrimLeft(l, " ")) < 4
	}
	return true
}

var specAs [][]byte

func TestKnown(t *testing.T)  { kit.RunKnown(t) }
func TestReplay(t *testing.T) { kit.RunReplay(t) }

func TestConcat(t *testing.T) {
	specAs = specA()
	kit.R.Note("spec_examples_usable_as_A", len(specAs))
	kit.Rapid(t, "concat", 250000, 12000000, func(t *rapid.T) {
		cfg := rapid.SampledFrom(configs).Draw(t, "cfg")
		var a []byte
		class := "closeddoc"
		if len(specAs) > 0 && rapid.IntRange(0, 4).Draw(t, "akind") == 0 {
			a = specAs[rapid.IntRange(0, len(specAs)-1).Draw(t, "aspec")]
			class = "spec"
		} else {
			a = gen.ClosedDoc(t, gen.ClosedNoBracket, kit.Pick(16, 40), "a")
		}
		b, _ := gen.Doc(t, noBracketNoCR, kit.Pick(20, 50), "b")
		h := strings.Repeat("#", rapid.IntRange(1, 6).Draw(t, "hl")) + " " + rapid.SampledFrom(words).Draw(t, "hw")
		c := kit.NewCase("concat", cfg.String()).B("a", a).B("h", []byte(h)).B("b", b)
		if kit.Check(t, c) {
			kit.R.Class("gen:" + class)
			_, la, na := firstLastKinds(cfg, a)
			fb, _, nb := firstLastKinds(cfg, b)
			if na > 0 && nb > 0 && (stateful[la] || stateful[fb]) {
				kit.R.NonTrivial(c)
				kit.R.Class("nontrivial", "lastA:"+la, "firstB:"+fb)
			}
		}
	})
}

// TestConcatClosedPairs: every ordered pair of the closed block constructs, as A and as B (B alone or behind a word
// line), under every configuration: what one complete construct leaves behind (memos, flags, lists in the parse
// context) meets every other construct deterministically, not only when the random generators happen to pair them.
func TestConcatClosedPairs(t *testing.T) {
	blocks := gen.ClosedBlocks(true)
	idx, n := 0, 0
	for _, a := range blocks {
		for _, b := range blocks {
			for _, pre := range []string{"", "w\n\n"} {
				idx++
				if !kit.Mine(idx) {
					continue
				}
				for _, cfg := range configs {
					c := kit.NewCase("concat", cfg.String()).B("a", []byte(a)).B("h", []byte("## mid")).B("b", []byte(pre+b))
					if kit.Check(t, c) {
						kit.R.Class("gen:closed-pairs")
						kit.R.NonTrivial(c)
						n++
					}
				}
			}
		}
	}
	kit.R.Note("exhaustive_closed_pairs", fmt.Sprintf("%d closed block constructs: all ordered pairs x 2 placements x %d configurations", len(blocks), len(configs)))
}

// label variants: case changes within SimpleFold orbits, whitespace runs respaced
func variant(t *rapid.T, label string) string {
	var sb strings.Builder
	for _, r := range label {
		if r == ' ' {
			sb.WriteString(rapid.SampledFrom([]string{" ", "  ", "\n", " \n ", "\t"}).Draw(t, "ws"))
			continue
		}
		k := rapid.IntRange(0, 3).Draw(t, "fold")
		f := r
		for i := 0; i < k; i++ {
			f = unicode.SimpleFold(f)
		}
		sb.WriteRune(f)
	}
	return sb.String()
}

var labelAlphabet = []string{"zq", "ZQ", "zqa", "zq b", "zqß", "zqσ", "zqK", "zq1", "zq é", "zq\\]", "zq*x*", "zqǆ"}

func TestDefs(t *testing.T) {
	kit.Rapid(t, "defs", 200000, 8000000, func(t *rapid.T) {
		cfg := rapid.SampledFrom(configs).Draw(t, "cfg")
		nl := rapid.IntRange(1, 4).Draw(t, "nlabels")
		labels := make([]string, nl)
		for i := range labels {
			labels[i] = rapid.SampledFrom(labelAlphabet).Draw(t, "lab") + strings.Repeat("w", i) // distinct by suffix length
		}
		// D = closed document; references are spliced into its soup parts only
		// (never into the generated closed blocks, whose fence/HTML lines must
		// stay intact) or added as paragraphs of their own between parts.
		mkref := func() string {
			lab := variant(t, labels[rapid.IntRange(0, nl-1).Draw(t, "which")])
			switch rapid.IntRange(0, 3).Draw(t, "form") {
			case 0:
				return "[text][" + lab + "] word "
			case 1:
				return "[" + lab + "][] word "
			case 2:
				return "![img][" + lab + "] word "
			}
			return "[" + lab + "] word "
		}
		hook := func(soup []byte) []byte {
			lines := bytes.SplitAfter(soup, []byte("\n"))
			nrefs := rapid.IntRange(0, 3).Draw(t, "nrefs")
			for i := 0; i < nrefs && len(lines) > 0; i++ {
				li := rapid.IntRange(0, len(lines)-1).Draw(t, "line")
				l := lines[li]
				pos := 0
				if !rapid.Bool().Draw(t, "atstart") {
					for pos < len(l) && strings.IndexByte(" >-*+0123456789.)", l[pos]) >= 0 {
						pos++
					}
				}
				lines[li] = append(append(append([]byte{}, l[:pos]...), mkref()...), l[pos:]...)
			}
			return bytes.Join(lines, nil)
		}
		d := gen.ClosedDocWith(t, gen.ClosedBracket, kit.Pick(12, 30), "d", hook)
		if !strings.HasSuffix(string(d), "\n") {
			d = append(d, '\n')
		}
		titles := []string{"", " \"t\"", " 't2'", " (t3)", "\n  \"on next line\"", " \"multi\nline\"", " '\nfirst line\nsecond line\n'", " (a\nb\nc)", " \"x\n  indented\"", " 'long title that goes on and on\nand on over two lines'"}
		// D may define labels of its own (they stay where they are); their titles may span lines as well
		if rapid.Bool().Draw(t, "own") {
			no := rapid.IntRange(1, 2).Draw(t, "nown")
			for i := 0; i < no; i++ {
				lab := "own" + strings.Repeat("y", i)
				d = append(d, ("\nSee [" + lab + "] here.\n\n[" + lab + "]: /own" + strconv.Itoa(i) + rapid.SampledFrom(titles).Draw(t, "owntitle") + "\n")...)
			}
			kit.R.Class("document-has-own-definitions")
		}
		d = append(d, ("\n" + mkref() + "\n\nend\n")...)
		// definitions
		var defs strings.Builder
		nd := rapid.IntRange(1, 5).Draw(t, "ndefs")
		for i := 0; i < nd; i++ {
			lab := variant(t, labels[rapid.IntRange(0, nl-1).Draw(t, "dwhich")])
			dest := rapid.SampledFrom([]string{"/u1", "/u2", "<http://a.b/c d>", "/p?q=1&r=2", "#frag"}).Draw(t, "dest")
			title := rapid.SampledFrom(titles).Draw(t, "title")
			// definitions start at column 0: an indented definition after a list
			// would belong to the last list item (and make the list loose)
			defs.WriteString("[" + lab + "]:" + rapid.SampledFrom([]string{" ", "  ", "\n "}).Draw(t, "dsep") + dest + title + "\n")
		}
		c := kit.NewCase("defs", cfg.String()).B("d", d).B("defs", []byte(defs.String()))
		if kit.Check(t, c) {
			kit.R.Class("gen:defs")
			out, _ := conv(cfg, append(append([]byte(defs.String()), '\n'), d...))
			if bytes.Contains(out, []byte("href=\"/u")) || bytes.Contains(out, []byte("src=\"/u")) || bytes.Contains(out, []byte("a.b/c")) || bytes.Contains(out, []byte("#frag")) || bytes.Contains(out, []byte("/p?q")) {
				kit.R.NonTrivial(c)
				kit.R.Class("nontrivial:resolved")
			}
		}
	})
}
