// Package c17: every rendered table is rectangular.
package c17

import (
	"bytes"
	"fmt"
	"strconv"
	"strings"
	"testing"

	"github.com/yuin/goldmark/ast"
	east "github.com/yuin/goldmark/extension/ast"
	"github.com/yuin/goldmark/text"
	"pgregory.net/rapid"

	"verif/gen"
	"verif/kit"
	"verif/oracle"
)

func TestMain(m *testing.M) {
	kit.Register("table-model", modelOracle)
	kit.Register("table-soup", soupOracle)
	kit.Describe("table-model: case = (safe configuration with the Table extension, a row model: optional paragraph lines, header row with h cells, delimiter row with d alignment cells, body rows with 1..2d cells, cells from inert words / emphasis / code spans / escaped pipes, leading and trailing pipes present or absent, optionally inside a block quote or list item) serialised to Markdown; oracle: a delimiter row with a cell that is not :?-+:? (empty between adjacent pipes, blank, inner space, stray character) => no table at all; h != d => no table at all; h == d => exactly one table, one thead with one tr of h th cells, every body row exactly h td cells, tbody iff there are body rows, every cell that was written in the source carries its column's alignment (per the pinned align method), and the AST has one TableHeader plus one TableRow per body row, each with len(Alignments) cells. wide tables: a fixed list of large shapes (up to 1000 columns / 1200 rows, > 65536 padding cells in one table) through the same oracle. table-soup: pipe/dash/colon soup; oracle: every table in the output is rectangular (one thead/tr, n >= 1 th, every body row n td, tbody iff rows) and every Table node has a header and rows of len(Alignments) cells. non-trivial = a table was produced and at least one body row had a cell count different from the header; distinct by hash of the case",
		"the expected shape comes from the generator's own row model and an independent reading of the GFM delimiter-row rule", "outputs are read with the strict HTML tokenizer; a case it rejects is left to C03")
	kit.Main(m, "C17")
}

type shape struct {
	tables int
	ragged bool
}

var last shape

// checkRect verifies rectangularity of every table element; returns per-table column counts.
func checkRect(root *oracle.Elem, out []byte) ([]*oracle.Elem, error) {
	tables := root.Find("table")
	for ti, tb := range tables {
		var theads, tbodies []*oracle.Elem
		for _, ch := range tb.Children {
			switch ch.Name {
			case "thead":
				theads = append(theads, ch)
			case "tbody":
				tbodies = append(tbodies, ch)
			default:
				return tables, kit.Violf("table-child", "table %d has a <%s> child in %q", ti, ch.Name, out)
			}
		}
		if len(theads) != 1 {
			return tables, kit.Violf("thead-count", "table %d has %d thead elements in %q", ti, len(theads), out)
		}
		if len(theads[0].Children) != 1 || theads[0].Children[0].Name != "tr" {
			return tables, kit.Violf("header-rows", "table %d: thead does not hold exactly one row in %q", ti, out)
		}
		hr := theads[0].Children[0]
		n := 0
		for _, c := range hr.Children {
			if c.Name != "th" {
				return tables, kit.Violf("header-cell", "table %d: header row holds <%s> in %q", ti, c.Name, out)
			}
			n++
		}
		if n < 1 {
			return tables, kit.Violf("empty-header", "table %d has no header cells in %q", ti, out)
		}
		if len(tbodies) > 1 {
			return tables, kit.Violf("tbody-count", "table %d has %d tbody elements in %q", ti, len(tbodies), out)
		}
		if len(tbodies) == 1 {
			if len(tbodies[0].Children) == 0 {
				return tables, kit.Violf("empty-tbody", "table %d has a tbody without rows in %q", ti, out)
			}
			for ri, tr := range tbodies[0].Children {
				if tr.Name != "tr" {
					return tables, kit.Violf("tbody-child", "table %d: tbody holds <%s> in %q", ti, tr.Name, out)
				}
				k := 0
				for _, c := range tr.Children {
					if c.Name != "td" {
						return tables, kit.Violf("body-cell", "table %d row %d holds <%s> in %q", ti, ri, c.Name, out)
					}
					k++
				}
				if k != n {
					return tables, kit.Violf("ragged-row", "table %d: body row %d has %d cells, the header has %d, in %q", ti, ri, k, n, out)
				}
			}
		}
	}
	return tables, nil
}

func checkAST(doc ast.Node) error {
	var err error
	_ = ast.Walk(doc, func(n ast.Node, entering bool) (ast.WalkStatus, error) {
		if !entering || err != nil {
			return ast.WalkContinue, nil
		}
		tb, ok := n.(*east.Table)
		if !ok {
			return ast.WalkContinue, nil
		}
		cols := len(tb.Alignments)
		i := 0
		for ch := n.FirstChild(); ch != nil; ch = ch.NextSibling() {
			if i == 0 && ch.Kind() != east.KindTableHeader {
				err = kit.Violf("ast-header", "first child of a Table is %s", ch.Kind())
			}
			if i > 0 && ch.Kind() != east.KindTableRow {
				err = kit.Violf("ast-row", "child %d of a Table is %s", i, ch.Kind())
			}
			k := 0
			for c := ch.FirstChild(); c != nil; c = c.NextSibling() {
				if c.Kind() != east.KindTableCell {
					err = kit.Violf("ast-cell", "row child of kind %s", c.Kind())
				}
				k++
			}
			if k != cols {
				err = kit.Violf("ast-ragged", "table row %d has %d cells, the table has %d alignments", i, k, cols)
			}
			i++
		}
		if i == 0 {
			err = kit.Violf("ast-empty-table", "Table node without header")
		}
		return ast.WalkContinue, nil
	})
	return err
}

func alignOf(cfg gen.Config, e *oracle.Elem) string {
	method := cfg.TableAlign
	if method == 0 {
		if cfg.XHTML {
			method = 1
		} else {
			method = 2
		}
	}
	switch method {
	case 1:
		v, _ := e.Attr("align")
		return v
	case 2:
		v, _ := e.Attr("style")
		return strings.TrimPrefix(v, "text-align:")
	}
	return ""
}

// modelOracle: Strs: header "c|c|c" cells joined by \x1f, delim alignments "l,r,c,n", rows joined by \x1e, flags.
func modelOracle(c *kit.Case) error {
	cfg := gen.ParseConfig(c.Config)
	cfg.Unsafe = false
	src := c.Bytes["src"]
	var b bytes.Buffer
	if err := cfg.MD().Convert(src, &b); err != nil {
		return kit.Violf("convert-error", "%v", err)
	}
	out := b.Bytes()
	root, _, err := oracle.ParseStrict(out)
	if err != nil {
		return nil
	}
	h := int(c.Ints["h"])
	aligns := strings.Split(c.Strs["aligns"], ",")
	d := len(aligns)
	var rowCells []int
	if s := c.Strs["rows"]; s != "" {
		for _, f := range strings.Split(s, ",") {
			k, _ := strconv.Atoi(f)
			rowCells = append(rowCells, k)
		}
	}
	tables, err := checkRect(root, out)
	if err != nil {
		return err
	}
	last = shape{tables: len(tables)}
	if c.Ints["baddelim"] != 0 {
		// a delimiter row with a cell that is not :?-+:? (empty, blank, inner space, stray character) is no delimiter row
		if len(tables) != 0 {
			return kit.Violf("invalid-delimiter-row-became-table", "a delimiter row with an invalid cell became a table: %q -> %q", src, out)
		}
		return checkAST(cfg.MD().Parser().Parse(text.NewReader(src)))
	}
	if h != d {
		if len(tables) != 0 {
			return kit.Violf("mismatched-header-became-table", "header with %d cells and delimiter row with %d cells became a table: %q -> %q", h, d, src, out)
		}
		return checkAST(cfg.MD().Parser().Parse(text.NewReader(src)))
	}
	if len(tables) != 1 {
		return kit.Violf("table-missing", "header and delimiter row with %d cells each did not give exactly one table (%d): %q -> %q", h, len(tables), src, out)
	}
	tb := tables[0]
	ths := tb.Find("th")
	if len(ths) != h {
		return kit.Violf("column-count", "table has %d columns, the source header has %d: %q -> %q", len(ths), h, src, out)
	}
	var trs []*oracle.Elem
	for _, ch := range tb.Children {
		if ch.Name == "tbody" {
			trs = ch.Children
		}
	}
	if len(trs) != len(rowCells) {
		return kit.Violf("row-count", "table has %d body rows, the source %d: %q -> %q", len(trs), len(rowCells), src, out)
	}
	want := map[string]string{"l": "left", "r": "right", "c": "center", "n": ""}
	if cfg.TableAlign != 3 {
		for i, th := range ths {
			if got := alignOf(cfg, th); got != want[aligns[i]] {
				return kit.Violf("alignment", "header cell %d has alignment %q, column says %q: %q -> %q", i, got, want[aligns[i]], src, out)
			}
		}
		for ri, tr := range trs {
			for ci, td := range tr.Children {
				if ci >= rowCells[ri] {
					break // padded cell: not written in the source
				}
				if got := alignOf(cfg, td); got != want[aligns[ci]] {
					return kit.Violf("alignment", "row %d cell %d has alignment %q, column says %q: %q -> %q", ri, ci, got, want[aligns[ci]], src, out)
				}
			}
		}
	}
	for _, k := range rowCells {
		if k != h {
			last.ragged = true
		}
	}
	return checkAST(cfg.MD().Parser().Parse(text.NewReader(src)))
}

func soupOracle(c *kit.Case) error {
	cfg := gen.ParseConfig(c.Config)
	cfg.Unsafe = false
	src := c.Bytes["src"]
	var b bytes.Buffer
	if err := cfg.MD().Convert(src, &b); err != nil {
		return kit.Violf("convert-error", "%v", err)
	}
	last = shape{}
	if root, _, err := oracle.ParseStrict(b.Bytes()); err == nil {
		tables, err := checkRect(root, b.Bytes())
		if err != nil {
			v := err.(*kit.Violation)
			v.Msg += fmt.Sprintf("\nsource %q", src)
			return v
		}
		last.tables = len(tables)
	}
	doc := cfg.MD().Parser().Parse(text.NewReader(src))
	// ragged = a body line of a table has a different number of pipes than the header; approximate from the AST lines
	return checkAST(doc)
}

// ---- generator

var cellTexts = []string{"a", "b", "foo", "x y", "*em*", "**s**", "`c`", "`a\\|b`", "a\\|b", "\\|", "1", "", "", " ", "é", "[l](u)", "<b>", "&amp;", "~~d~~", "a*b", "`", "`<b>\\|`", "`x\\|\"y`", "`&\\|<`",
	// bytes that are not valid UTF-8 at the edge of a cell (a lead byte whose continuation bytes would be the pipe), wide characters
	"caf\xe9", "x\xc4", "\xfc", "\xf0\x9f", "\xe3\x81", "\x80", "a\xc3", "\xc3 ", "日本", "\u3000", "é\xcc"}

func drawCell(t *rapid.T) string {
	return rapid.SampledFrom(cellTexts).Draw(t, "cell")
}

var rowIndentOK = true

func writeRow(t *rapid.T, cells []string, forcePipes bool) string {
	lead := forcePipes || rapid.Bool().Draw(t, "lead")
	trail := forcePipes || rapid.Bool().Draw(t, "trail")
	if len(cells) == 1 {
		lead = true
	}
	// without a leading pipe the first cell must be non-blank and must not look like another block
	if !lead && strings.TrimSpace(cells[0]) == "" {
		lead = true
	}
	if !trail && strings.TrimSpace(cells[len(cells)-1]) == "" {
		trail = true
	}
	// a cell ending in a backslash followed by the separator would escape the pipe
	var sb strings.Builder
	if rowIndentOK {
		sb.WriteString(rapid.SampledFrom([]string{"", "", "", " ", "  ", "   "}).Draw(t, "rowindent"))
	}
	rowIndentOK = true
	if lead {
		sb.WriteString("|")
	}
	for i, c := range cells {
		if i > 0 {
			sb.WriteString("|")
		}
		pad := rapid.SampledFrom([]string{"", " ", "  "}).Draw(t, "pad")
		if i == 0 && !lead {
			pad = "" // "- |" at the start of a line would be a list item, not a delimiter row
		}
		sb.WriteString(pad + c + pad)
	}
	if trail {
		sb.WriteString("|")
	}
	return sb.String()
}

func delimCell(t *rapid.T, a string) string {
	dashes := strings.Repeat("-", rapid.IntRange(1, 4).Draw(t, "dashes"))
	switch a {
	case "l":
		return ":" + dashes
	case "r":
		return dashes + ":"
	case "c":
		return ":" + dashes + ":"
	}
	return dashes
}

func safeCell(c string) string {
	if strings.HasSuffix(c, "\\") && !strings.HasSuffix(c, "\\\\") {
		return c + " x"
	}
	return c
}

func TestKnown(t *testing.T)  { kit.RunKnown(t) }
func TestReplay(t *testing.T) { kit.RunReplay(t) }

func TestTableModel(t *testing.T) {
	kit.Rapid(t, "model", 150000, 8000000, func(t *rapid.T) {
		cfg := gen.DrawConfig(t, gen.ConfigOpts{SafeOnly: true})
		if !cfg.HasTable() {
			cfg.Table = true
		}
		cfg.Typo = false // typographer would rewrite dashes inside cells only; keep the model simple
		d := rapid.IntRange(1, 5).Draw(t, "d")
		h := d
		if rapid.IntRange(0, 5).Draw(t, "mismatch") == 0 {
			h = rapid.IntRange(1, 6).Draw(t, "h")
		}
		var aligns []string
		for i := 0; i < d; i++ {
			aligns = append(aligns, rapid.SampledFrom([]string{"l", "r", "c", "n"}).Draw(t, "align"))
		}
		var lines []string
		container := rapid.IntRange(0, 5).Draw(t, "container")
		// inside a list item the first line fixes the content column: extra indentation
		// there would turn the following rows into lazy continuation lines
		rowIndentOK = container != 1
		if rapid.IntRange(0, 3).Draw(t, "para") == 0 {
			np := rapid.IntRange(1, 2).Draw(t, "np")
			for i := 0; i < np; i++ {
				lines = append(lines, rapid.SampledFrom([]string{"intro text", "more words here", "x | y", "plain", "[r]: /u", "[r2]: /v 't'", "[r3]:\n  /w"}).Draw(t, "ptext"))
				rowIndentOK = true
			}
		}
		hasPara := len(lines) > 0
		var hc []string
		for i := 0; i < h; i++ {
			c := safeCell(drawCell(t))
			// (a blank first / last cell is written with its outer pipe, see writeRow: with the pipe there the
			// cell is between two pipes like any other)
			hc = append(hc, c)
		}
		lines = append(lines, writeRow(t, hc, h == 1 || hasPara && false))
		var dc []string
		for _, a := range aligns {
			dc = append(dc, delimCell(t, a))
		}
		bad := int64(0)
		if rapid.IntRange(0, 7).Draw(t, "baddelim") == 0 {
			// near-miss delimiter rows: one cell that GFM does not accept (written with outer pipes so that the
			// line cannot be a list item or a thematic break)
			bad = 1
			inv := rapid.SampledFrom([]string{"", "", " ", "- -", ":", "::", "-a", "a", "--:-", "=", "-:-", "- :"}).Draw(t, "badcell")
			pos := rapid.IntRange(0, len(dc)).Draw(t, "badpos")
			if rapid.Bool().Draw(t, "badreplace") && len(dc) > 1 && pos < len(dc) {
				dc[pos] = inv
			} else {
				dc = append(dc[:pos], append([]string{inv}, dc[pos:]...)...)
			}
			lines = append(lines, writeRow(t, dc, true))
		} else {
			lines = append(lines, writeRow(t, dc, d == 1))
		}
		nr := rapid.IntRange(0, 5).Draw(t, "nrows")
		var rowCells []string
		for r := 0; r < nr; r++ {
			k := rapid.IntRange(1, 2*d).Draw(t, "ncells")
			if rapid.Bool().Draw(t, "exact") {
				k = d
			}
			var rc []string
			for i := 0; i < k; i++ {
				cell := safeCell(drawCell(t))

				rc = append(rc, cell)
			}
			// the written row must keep k cells: a blank last cell needs the trailing pipe (writeRow does that)
			lines = append(lines, writeRow(t, rc, k == 1))
			rowCells = append(rowCells, strconv.Itoa(k))
		}
		body := strings.Join(lines, "\n") + "\n"
		rowIndentOK = true
		switch container {
		case 0:
			body = "> " + strings.ReplaceAll(strings.TrimSuffix(body, "\n"), "\n", "\n> ") + "\n"
		case 1:
			body = "- " + strings.ReplaceAll(strings.TrimSuffix(body, "\n"), "\n", "\n  ") + "\n"
		case 2:
			body = body + "\nafter\n"
		}
		c := kit.NewCase("table-model", cfg.String()).B("src", []byte(body)).I("h", int64(h)).S("aligns", strings.Join(aligns, ",")).S("rows", strings.Join(rowCells, ","))
		if bad != 0 {
			c.I("baddelim", bad)
			kit.R.Class("invalid-delimiter-row")
		}
		last = shape{}
		if kit.Check(t, c) {
			kit.R.Class("model-documents")
			if last.tables > 0 {
				kit.R.Class("produced-a-table")
			}
			if h != d {
				kit.R.Class("header-delimiter-mismatch")
			}
			if last.tables > 0 && last.ragged {
				kit.R.NonTrivial(c)
				kit.R.Class("nontrivial")
			}
		}
	})
}

// TestWideTables: size thresholds. A handful of large tables (hundreds of columns x hundreds of short or
// over-long rows, > 65536 padding cells in one table) through the same row-model oracle.
func TestWideTables(t *testing.T) {
	shapes := [][3]int{{300, 400, 1}, {64, 1200, 2}, {1000, 70, 1}, {130, 600, 1}, {40, 300, 90}, {257, 257, 1}}
	if kit.Thorough() {
		shapes = append(shapes, [3]int{2000, 40, 3}, [3]int{16, 5000, 1}, [3]int{512, 512, 1}, [3]int{100, 100, 250})
	}
	for i, sh := range shapes {
		if !kit.Mine(i) {
			continue
		}
		cols, rows, cells := sh[0], sh[1], sh[2]
		var sb strings.Builder
		sb.WriteString("|" + strings.Repeat("h|", cols) + "\n|" + strings.Repeat("-|", cols) + "\n")
		var rc []string
		aligns := make([]string, cols)
		for j := range aligns {
			aligns[j] = "n"
		}
		for r := 0; r < rows; r++ {
			k := cells
			if r%7 == 3 {
				k = cols // a full row now and then
			}
			sb.WriteString("|" + strings.Repeat("c|", k) + "\n")
			rc = append(rc, strconv.Itoa(k))
		}
		for _, cfg := range []gen.Config{{Table: true}, {GFM: true, XHTML: true}} {
			c := kit.NewCase("table-model", cfg.String()).B("src", []byte(sb.String())).I("h", int64(cols)).S("aligns", strings.Join(aligns, ",")).S("rows", strings.Join(rc, ","))
			last = shape{}
			if kit.Check(t, c) {
				kit.R.Class("wide-tables")
				if last.tables > 0 && last.ragged {
					kit.R.NonTrivial(c)
				}
			}
		}
	}
}

var tblSoup = &gen.Profile{Name: "tblsoup", NoHTML: true, Extra: []string{"a", "b", " ", "|", "|", "|", "|", "-", "--", ":", ":-", "-:", ":-:", "\n", "\n", "\n", "\\|", "`", "``", "\\", "> ", "- ", "  ", "    ", "*", "\n\n", "x|y", "| a | b |\n", "|-|-|\n", "|:-|-:|\n", "\\\\|", "||", "|a|\n|-|\n", "a|b\n-|-\n", "|\n", "| |\n"}}

func TestTableSoup(t *testing.T) {
	kit.Rapid(t, "soup", 150000, 8000000, func(t *rapid.T) {
		cfg := gen.DrawConfig(t, gen.ConfigOpts{SafeOnly: true})
		if !cfg.HasTable() {
			cfg.Table = true
		}
		var src []byte
		if rapid.IntRange(0, 3).Draw(t, "shape") == 0 {
			src = gen.Soup(t, tblSoup, kit.Pick(30, 60), "s")
		} else {
			// header-ish line, delimiter-ish line, body soup: most of these become tables
			head := bytes.ReplaceAll(gen.Soup(t, tblSoup, 8, "head"), []byte("\n"), []byte(" "))
			var delim []byte
			for _, i := range rapid.SliceOfN(rapid.IntRange(0, 8), 1, 9).Draw(t, "delim") {
				delim = append(delim, []string{"|", "|", "-", ":-", "-:", ":-:", " ", "--", "| - "}[i]...)
			}
			src = append(append(append(append(head, '\n'), delim...), '\n'), gen.Soup(t, tblSoup, kit.Pick(20, 40), "body")...)
			if rapid.IntRange(0, 4).Draw(t, "quote") == 0 {
				src = append([]byte("> "), bytes.ReplaceAll(src, []byte("\n"), []byte("\n> "))...)
			}
		}
		c := kit.NewCase("table-soup", cfg.String()).B("src", src)
		last = shape{}
		if kit.Check(t, c) {
			kit.R.Class("soup-documents")
			if last.tables > 0 {
				kit.R.Class("soup-produced-a-table")
				if bytes.Count(src, []byte("\n")) >= 3 {
					kit.R.NonTrivial(c)
				}
			}
		}
	})
}
