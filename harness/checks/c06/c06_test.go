// Package c06: output is a pure function of configuration and source
// (history of Convert / Parse / Render calls on the same objects must not matter).
package c06

import (
	"bufio"
	"bytes"
	"errors"
	"fmt"
	"io"
	"strconv"
	"strings"
	"testing"

	"github.com/yuin/goldmark/ast"
	"github.com/yuin/goldmark/parser"
	"github.com/yuin/goldmark/text"
	"pgregory.net/rapid"

	"verif/gen"
	"verif/kit"
	"verif/oracle"
)

func TestMain(m *testing.M) {
	kit.Register("history", historyOracle)
	kit.Register("rerender", rerenderOracle)
	kit.Describe("case = (configuration, pool of 2..6 documents, operation list over one long-lived Markdown value: cI Convert, fI / gI Convert into a destination that fails at once / after 40 bytes, pI Parse+Render keeping the tree, rI render the kept tree again, xI render a tree parsed by another fresh instance, kI Parse with a caller-supplied fresh parser.Context, bI Convert on a fresh instance); oracle: every output for document i equals the canonical output computed by a brand-new instance before the history starts; non-trivial = >= 3 operations including a re-render of a tree that contains an extension node, or two different documents of a definer/user pair (references, heading ids, footnotes, quotes, tables, fences); distinct by hash of the case",
		"instances are created fresh for every case", "the canonical outputs are computed from private copies of the documents; in a quarter of the cases all one-shot conversions read their document from one recycled backing array")
	kit.Main(m, "C06")
}

func historyOracle(c *kit.Case) error {
	cfg := gen.ParseConfig(c.Config)
	nd := int(c.Ints["ndocs"])
	docs := make([][]byte, nd)
	canon := make([][]byte, nd)
	for i := range docs {
		docs[i] = c.Bytes["d"+strconv.Itoa(i)]
		var b bytes.Buffer
		// the canonical output comes from a private copy of the source: whatever a conversion does to the
		// slice it is given must not be able to make the canonical run and the history agree by accident
		if err := cfg.Fresh().Convert(append([]byte(nil), docs[i]...), &b); err != nil {
			return kit.Violf("convert-error", "%v", err)
		}
		canon[i] = b.Bytes()
	}
	a := cfg.Fresh()
	trees := map[int]ast.Node{}
	prints := map[int]string{}
	// recycle: one-shot conversions read their document from one shared backing array that is overwritten
	// for every call (bytes.Buffer.Reset, a pool of request buffers); documents whose tree is kept for
	// re-rendering stay in their own slices, as the API requires
	var shared []byte
	if c.Ints["recycle"] != 0 {
		n := 0
		for _, d := range docs {
			if len(d) > n {
				n = len(d)
			}
		}
		shared = make([]byte, n+8)
	}
	oneShot := func(i int) []byte {
		if shared == nil {
			return docs[i]
		}
		copy(shared, docs[i])
		return shared[:len(docs[i])]
	}
	check := func(step int, op string, i int, got []byte) error {
		if !bytes.Equal(got, canon[i]) {
			return kit.Violf("history-dependent", "step %d (%s) on document %d %q:\n got       %q\n canonical %q", step, op, i, docs[i], got, canon[i])
		}
		return nil
	}
	for step, op := range strings.Fields(c.Strs["ops"]) {
		i, _ := strconv.Atoi(op[1:])
		if i < 0 || i >= nd {
			continue
		}
		var b bytes.Buffer
		var err error
		switch op[0] {
		case 'c':
			err = a.Convert(oneShot(i), &b)
		case 'p':
			t := a.Parser().Parse(text.NewReader(docs[i]))
			trees[i], prints[i] = t, oracle.Fingerprint(t)
			err = a.Renderer().Render(&b, docs[i], t)
		case 'r':
			t, ok := trees[i]
			if !ok {
				continue
			}
			err = a.Renderer().Render(&b, docs[i], t)
		case 'x':
			t := cfg.Fresh().Parser().Parse(text.NewReader(docs[i]))
			trees[i], prints[i] = t, oracle.Fingerprint(t)
			err = a.Renderer().Render(&b, docs[i], t)
		case 'k':
			src := oneShot(i)
			t := a.Parser().Parse(text.NewReader(src), parser.WithContext(parser.NewContext()))
			err = a.Renderer().Render(&b, src, t)
		case 'b':
			err = cfg.Fresh().Convert(docs[i], &b)
		case 'f', 'g':
			// a conversion whose destination fails (at once / after 40 bytes, behind a small caller buffer so that
			// node renderers meet the failure in the middle of the walk): it is part of the history like any other
			k := 0
			if op[0] == 'g' {
				k = 40
			}
			_ = a.Convert(oneShot(i), bufio.NewWriterSize(&failAfter{left: k}, 16))
			continue
		default:
			continue
		}
		if err != nil {
			return kit.Violf("error", "step %d (%s): %v", step, op, err)
		}
		if e := check(step, op, i, b.Bytes()); e != nil {
			return e
		}
		if op[0] == 'p' || op[0] == 'r' || op[0] == 'x' {
			if fp := oracle.Fingerprint(trees[i]); fp != prints[i] {
				return kit.Violf("render-altered-tree", "step %d (%s): rendering document %d %q changed the tree:%s", step, op, i, docs[i], fpDiff(prints[i], fp))
			}
		}
	}
	return nil
}

// fpDiff shows the first line on which two fingerprints differ.
func fpDiff(a, b string) string {
	la, lb := strings.Split(a, "\n"), strings.Split(b, "\n")
	for i := 0; i < len(la) || i < len(lb); i++ {
		x, y := "", ""
		if i < len(la) {
			x = la[i]
		}
		if i < len(lb) {
			y = lb[i]
		}
		if x != y {
			return fmt.Sprintf("\n before %q\n after  %q", x, y)
		}
	}
	return " (no difference)"
}

// rerenderOracle: one document, one configuration. Parse once; the tree's public surface is fingerprinted; the
// tree is rendered three times (the second time by another instance of the same configuration): every output
// equals Convert's on a fresh instance and the fingerprint never changes - rendering does not alter the tree.
func rerenderOracle(c *kit.Case) error {
	cfg := gen.ParseConfig(c.Config)
	src := c.Bytes["src"]
	var canon bytes.Buffer
	if err := cfg.Fresh().Convert(append([]byte(nil), src...), &canon); err != nil {
		return kit.Violf("convert-error", "%v", err)
	}
	a := cfg.Fresh()
	tree := a.Parser().Parse(text.NewReader(src))
	fp0 := oracle.Fingerprint(tree)
	for k, r := range []interface {
		Render(w io.Writer, source []byte, n ast.Node) error
	}{a.Renderer(), cfg.Fresh().Renderer(), a.Renderer()} {
		var b bytes.Buffer
		if err := r.Render(&b, src, tree); err != nil {
			return kit.Violf("error", "render %d: %v", k+1, err)
		}
		if !bytes.Equal(b.Bytes(), canon.Bytes()) {
			return kit.Violf("rerender-differs", "render %d of the same tree of %q:\n got       %q\n canonical %q", k+1, src, b.Bytes(), canon.Bytes())
		}
		if fp := oracle.Fingerprint(tree); fp != fp0 {
			return kit.Violf("render-altered-tree", "render %d of %q changed the tree:%s", k+1, src, fpDiff(fp0, fp))
		}
	}
	return nil
}

type failAfter struct{ left int }

func (w *failAfter) Write(p []byte) (int, error) {
	if len(p) <= w.left {
		w.left -= len(p)
		return len(p), nil
	}
	n := w.left
	w.left = 0
	return n, errors.New("destination failed")
}

var pairs = [][2]string{
	{"[foo]: /url \"t\"\n\n[foo] [bar]\n", "[foo]\n\n[Foo][] [bar]\n"},
	{"# Title\n\n# Title\n\nTitle\n=====\n", "# Title\n\n## title\n"},
	{"#\n\n# \n\n# !!\n", "#\n\n# heading\n"},
	{"a[^1] b[^x]\n\n[^1]: note\n\n[^x]: other\n", "b[^1] c[^x]\n"},
	{"\"open quote 'and\n", "it's \"x\" 'y' -- z... <<a>>\n"},
	{"|a|b|c|\n|:-|-:|:-:|\n|c|d|e|\n", "|a|b|\n|-|-|\n|c|d|\n"},
	{"```go {#x}\nx\n```\n", "```\ny\n```\n~~~ py\nz\n~~~\n"},
	{"```\nunclosed\n", "text\n"},
	{"[unclosed link](\n", "[x](y) ![i](j)\n"},
	{"term\n: def\n\nterm b\n: def b\n", "term2\n: def2\n"},
	{"- [ ] a\n- [x] b\n", "- [x] b\n1. [ ] c\n"},
	{"*a **b\n", "**c* ~~d~~\n"},
	{"<div>\n", "para <b>x</b>\n"},
	{"<!-- a\n-->\nokay\n", "<?php\n?>\n<script>\nx\n</script> y\n"},
	{"> <![CDATA[\n> x\n> ]]>\n", "- <!X\n  y>\n- <pre>\n\n  </pre>\n\n<style>\n"},
	{"# h {#custom .c}\n\n# h\n", "# h\n\n# custom\n"},
	{"日本\n語 \\ x\n", "語\n語\n"},
	{"www.a.bc http://x.yz a@b.cd\n", "www.a.bc\n"},
	{"> - a\n>\n>   b\n", "- a\n- b\n\n- c\n"},
	{"> `foo\r\n> bar`\r\n", "`a\r\nb`\r\n\r\n- `c\r\n  d`\r\n"},
	{"> `foo\n> bar` x\n", "- `a\n  b`\n"},
	{"# t {title=\"say \\\"hi\\\" to everybody\"}\n", "# u {title=\"C:\\\\temp\\\\new folder (2)\" data-n=12}\n"},
	{"# Install {#install tabindex=3}\n", "## v {.c hidden=true data-k=\"a\\\"b\"}\n"},
	{"\"foo\n", "foo\" bar\n"},
	{"'tis \"a\n\nb\" c'\n", "x\" y' z\n"},
}

// role-swap documents: the same fragment appears in two syntactic roles in two
// documents of the pool (content-keyed caches must not leak between roles)
var fragments = []string{"http://a.example/?q=\\*", "http://a.b/&amp;c", "http://a.b/%20x", "http://a.b/\\&amp;", "mailto:a\\_b@c.de", "http://x.y/&#35;z", "foo&copy;", "a\\&b", "x\\_y", "Title", "*x*", "a b", "&#x41;&#66;"}
var roles = []string{"<@>\n", "[x](@)\n", "![i](@)\n", "[r]\n\n[r]: @\n", "[x](u \"@\")\n", "`@`\n", "```@\nc\n```\n", "# @\n", "[@](u)\n", "@\n", "<a href=\"@\">\n", "|@|\n|-|\n|@|\n", "x[^1]\n\n[^1]: @\n", "@\n: @\n", "- [ ] @\n", "\"@\"\n"}

func roleDoc(t *rapid.T, frag string, label string) []byte {
	return []byte(strings.ReplaceAll(rapid.SampledFrom(roles).Draw(t, label), "@", frag))
}

var extMarkers = []string{"<table", "footnote", "<del", "<input", "<dl", "<sup"}

func drawDoc(t *rapid.T, label string) []byte {
	switch rapid.IntRange(0, 4).Draw(t, label+"k") {
	case 4:
		if rapid.Bool().Draw(t, label+"long") {
			return gen.LongDoc(t, gen.Any, label+"l") // size thresholds: pooled or recycled buffers keep what a long document left
		}
		return gen.FootnoteDoc(t, gen.Any, label+"fn")
	case 0:
		return gen.Soup(t, gen.Any, 20, label+"s")
	case 1:
		return gen.SeedDoc(t, label+"seed")
	default:
		p := rapid.SampledFrom(pairs).Draw(t, label+"p")
		return []byte(p[rapid.IntRange(0, 1).Draw(t, label+"side")])
	}
}

// TestRerender: the re-render relation and the tree fingerprint on every kind of document the shared generators
// produce, not only on the pool of a history.
func TestRerender(t *testing.T) {
	kit.Rapid(t, "rerender", 60000, 2400000, func(t *rapid.T) {
		cfg := gen.DrawConfig(t, gen.ConfigOpts{})
		doc, class := gen.Doc(t, gen.Any, 24, "d")
		c := kit.NewCase("rerender", cfg.String()).B("src", doc)
		if kit.Check(t, c) {
			kit.R.Class("rerender:" + class)
			if len(doc) > 8 {
				kit.R.NonTrivial(c)
			}
		}
	})
}

// TestRerenderConstructs: the same over the construct-adjacency enumeration (every pair of block constructs,
// triples over the reduced set / all), under three configurations.
func TestRerenderConstructs(t *testing.T) {
	cfgs := []gen.Config{{Unsafe: true}, {GFM: true, Footnote: true, DefList: true, Typo: true, AutoID: true, Attr: true, Unsafe: true, XHTML: true}, {GFM: true, CJK: 1, HardWraps: true}}
	n := gen.EnumConstructDocs(kit.Thorough(), func(idx int, doc []byte) {
		if !kit.Mine(idx) {
			return
		}
		for _, cfg := range cfgs {
			c := kit.NewCase("rerender", cfg.String()).B("src", doc)
			if kit.Check(t, c) {
				kit.R.Class("rerender:constructs")
				kit.R.NonTrivial(c)
			}
		}
	})
	kit.R.Note("rerender_constructs", fmt.Sprintf("%d construct-adjacency documents x %d configurations", n, len(cfgs)))
}

func TestKnown(t *testing.T)  { kit.RunKnown(t) }
func TestReplay(t *testing.T) { kit.RunReplay(t) }

func TestHistory(t *testing.T) {
	kit.Rapid(t, "history", 40000, 1600000, func(t *rapid.T) {
		cfg := gen.DrawConfig(t, gen.ConfigOpts{})
		if rapid.Bool().Draw(t, "allext") {
			cfg.GFM, cfg.Linkify, cfg.Table, cfg.Strike, cfg.Task = true, false, false, false, false
			cfg.DefList, cfg.Footnote, cfg.Typo, cfg.AutoID = true, true, true, true
		}
		c := kit.NewCase("history", cfg.String())
		nd := rapid.IntRange(2, 6).Draw(t, "ndocs")
		paired := false
		// the first two documents are a definer/user pair most of the time
		if k := rapid.IntRange(0, 5).Draw(t, "pair"); k == 5 {
			f := rapid.SampledFrom(fragments).Draw(t, "frag")
			c.B("d0", roleDoc(t, f, "role0")).B("d1", roleDoc(t, f, "role1"))
			paired = true
			kit.R.Class("role-swap-pair")
		} else if k != 0 {
			p := rapid.SampledFrom(pairs).Draw(t, "pairsel")
			c.B("d0", []byte(p[0])).B("d1", []byte(p[1]))
			paired = true
			if strings.Contains(p[0], "{") && rapid.IntRange(0, 3).Draw(t, "forceattr") != 0 {
				cfg.Attr = true
				c.Config = cfg.String()
			}
		} else {
			c.B("d0", drawDoc(t, "d0")).B("d1", drawDoc(t, "d1"))
		}
		for i := 2; i < nd; i++ {
			c.B("d"+strconv.Itoa(i), drawDoc(t, "d"+strconv.Itoa(i)))
		}
		c.I("ndocs", int64(nd))
		nops := rapid.IntRange(2, 14).Draw(t, "nops")
		var ops []string
		for k := 0; k < nops; k++ {
			op := rapid.SampledFrom([]string{"c", "c", "c", "p", "p", "r", "r", "r", "x", "k", "b", "f", "g"}).Draw(t, "op")
			i := rapid.IntRange(0, nd-1).Draw(t, "doc")
			if paired && rapid.IntRange(0, 2).Draw(t, "bias") == 0 {
				i = rapid.IntRange(0, 1).Draw(t, "pdoc")
			}
			ops = append(ops, fmt.Sprintf("%s%d", op, i))
		}
		c.S("ops", strings.Join(ops, " "))
		if rapid.IntRange(0, 3).Draw(t, "recycle") == 0 {
			c.I("recycle", 1)
			kit.R.Class("recycled-source-buffer")
		}
		if kit.Check(t, c) {
			kit.R.Class("histories")
			// non-triviality
			usedDocs := map[string]bool{}
			rerenderExt := false
			seenP := map[string]bool{}
			for _, op := range ops {
				usedDocs[op[1:]] = true
				if op[0] == 'p' || op[0] == 'x' {
					seenP[op[1:]] = true
				}
				if op[0] == 'r' && seenP[op[1:]] {
					var b bytes.Buffer
					_ = cfg.MD().Convert(c.Bytes["d"+op[1:]], &b)
					for _, m := range extMarkers {
						if bytes.Contains(b.Bytes(), []byte(m)) {
							rerenderExt = true
						}
					}
				}
			}
			if len(ops) >= 3 && (rerenderExt || (paired && usedDocs["0"] && usedDocs["1"])) {
				kit.R.NonTrivial(c)
				if rerenderExt {
					kit.R.Class("nontrivial:rerender-extension-tree")
				}
				if paired && usedDocs["0"] && usedDocs["1"] {
					kit.R.Class("nontrivial:definer-user-pair")
				}
			}
			kit.R.ClassN("operations", int64(len(ops)))
		}
	})
}
