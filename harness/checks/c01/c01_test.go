// Package c01: conversion is total — no panic, nil error, Parse+Render equals
// Convert, termination (watchdog in kit + isolated re-run in the driver).
package c01

import (
	"bytes"
	"fmt"
	"io"
	"runtime"
	"strings"
	"testing"

	"github.com/yuin/goldmark/ast"
	"github.com/yuin/goldmark/text"
	"pgregory.net/rapid"

	"verif/gen"
	"verif/kit"
)

func TestMain(m *testing.M) {
	kit.Register("convert", convertOracle)
	kit.Describe("case = (configuration, source) drawn from token soup / line-structured soup / repository test inputs and their mutations / k-fold nesting / exhaustive short strings; non-trivial = the parsed tree has >= 2 distinct block kinds or a non-Text inline node, or the source contains a byte >= 0x80, NUL or CR; distinct by hash of (configuration, source)",
		"sizes up to 16 KiB per document", "termination is judged by a 30 s in-process watchdog and a 120 s isolated re-run", "deep-nesting documents additionally must not allocate more than 1 GiB per conversion (memory exhaustion is a crash)")
	kit.Main(m, "C01")
}

var lastDoc ast.Node

func convertOracle(c *kit.Case) error {
	cfg := gen.ParseConfig(c.Config)
	md := cfg.MD()
	src := c.Bytes["src"]
	if k := c.Ints["failfirst"]; k != 0 {
		// the statement is about calls whose destination does not fail; an earlier call on the same instance
		// (or in the same process) whose destination did fail must not change that
		_ = md.Convert(src, &failingWriter{left: int(k) - 1})
	}
	var b1 bytes.Buffer
	var m0, m1 runtime.MemStats
	if c.Ints["membound"] != 0 {
		runtime.ReadMemStats(&m0)
	}
	if err := md.Convert(src, &b1); err != nil {
		return kit.Violf("convert-error", "Convert returned %v", err)
	}
	if c.Ints["membound"] != 0 {
		// "no input can crash the library": running out of memory is a crash no recover() catches. A conversion of
		// at most 16 KiB that allocates more than a gibibyte (ordinary documents of that size need a few megabytes)
		// is on its way there - the bound is five orders of magnitude above the input size
		runtime.ReadMemStats(&m1)
		if d := m1.TotalAlloc - m0.TotalAlloc; d > 1<<30 && len(src) <= 16384 {
			return kit.Violf("memory-blowup", "converting %d bytes allocated %d MiB", len(src), d>>20)
		}
	}
	doc := md.Parser().Parse(text.NewReader(src))
	lastDoc = doc
	var b2 bytes.Buffer
	if err := md.Renderer().Render(&b2, src, doc); err != nil {
		return kit.Violf("render-error", "Render returned %v", err)
	}
	if !bytes.Equal(b1.Bytes(), b2.Bytes()) {
		return kit.Violf("parse-render-differs", "Convert gave %q, Parse+Render gave %q", b1.Bytes(), b2.Bytes())
	}
	return nil
}

// failingWriter accepts `left` bytes and fails from then on.
type failingWriter struct{ left int }

func (w *failingWriter) Write(p []byte) (int, error) {
	if len(p) <= w.left {
		w.left -= len(p)
		return len(p), nil
	}
	n := w.left
	w.left = 0
	return n, io.ErrClosedPipe
}

func nontrivial(src []byte, doc ast.Node) bool {
	for _, b := range src {
		if b >= 0x80 || b == 0 || b == '\r' {
			return true
		}
	}
	if doc == nil {
		return false
	}
	kinds := map[ast.NodeKind]bool{}
	inl := false
	_ = ast.Walk(doc, func(n ast.Node, entering bool) (ast.WalkStatus, error) {
		if !entering {
			return ast.WalkContinue, nil
		}
		if n.Type() == ast.TypeBlock {
			kinds[n.Kind()] = true
		} else if n.Type() == ast.TypeInline && n.Kind() != ast.KindText {
			inl = true
		}
		return ast.WalkContinue, nil
	})
	return len(kinds) >= 2 || inl
}

func run(t kit.TB, cfg gen.Config, src []byte, class string) {
	c := kit.NewCase("convert", cfg.String()).B("src", src)
	if rt, ok := t.(*rapid.T); ok && rapid.IntRange(0, 15).Draw(rt, "failfirst") == 0 {
		c.I("failfirst", int64(1+rapid.IntRange(0, 40).Draw(rt, "failat")))
		kit.R.Class("after-a-failed-conversion")
	}
	lastDoc = nil
	if kit.Check(t, c) {
		kit.R.Class("gen:" + class)
		if nontrivial(src, lastDoc) {
			kit.R.NonTrivial(c)
			kit.R.Class("nontrivial")
		}
	}
}

func TestKnown(t *testing.T)  { kit.RunKnown(t) }
func TestReplay(t *testing.T) { kit.RunReplay(t) }

func TestDocs(t *testing.T) {
	kit.Rapid(t, "docs", 200000, 6000000, func(t *rapid.T) {
		cfg := gen.DrawConfig(t, gen.ConfigOpts{})
		src, class := gen.Doc(t, gen.Any, kit.Pick(40, 120), "d")
		run(t, cfg, src, class)
	})
}

func TestNest(t *testing.T) {
	kit.Rapid(t, "nest", 3000, 120000, func(t *rapid.T) {
		cfg := gen.DrawConfig(t, gen.ConfigOpts{})
		src := gen.Nest(t, gen.Any, 16384, "n")
		c := kit.NewCase("convert", cfg.String()).B("src", src).I("membound", 1)
		lastDoc = nil
		if kit.Check(t, c) {
			kit.R.Class("gen:nest")
			if nontrivial(src, lastDoc) {
				kit.R.NonTrivial(c)
			}
		}
	})
}

var exhAlphabet = []string{"a", " ", "\t", "\n", "\r", "#", "-", "*", "_", "`", ">", "<", "[", "]", "(", ")", "!", "\\", "&", "|", ":", "\x80", "é"}

var exhConfigs = []gen.Config{
	{},
	{Unsafe: true, XHTML: true, HardWraps: true},
	{GFM: true},
	{GFM: true, DefList: true, Footnote: true, Typo: true, AutoID: true, Attr: true},
	{CJK: 1},
	{CJK: 5, GFM: true, DefList: true, Footnote: true, Typo: true, AutoID: true, Attr: true, Unsafe: true},
	{CJK: 3, HardWraps: true},
	{DefList: true, Footnote: true, Typo: true, XHTML: true},
}

// TestExhaustive enumerates every string over the alphabet up to length L
// (quick 3, thorough 4) under 8 configuration points.
func TestExhaustive(t *testing.T) {
	L := kit.Pick(3, 4)
	n := len(exhAlphabet)
	total := 0
	idx := 0
	for l := 0; l <= L; l++ {
		count := 1
		for i := 0; i < l; i++ {
			count *= n
		}
		for v := 0; v < count; v++ {
			idx++
			if !kit.Mine(idx) {
				continue
			}
			var src []byte
			x := v
			for i := 0; i < l; i++ {
				src = append(src, exhAlphabet[x%n]...)
				x /= n
			}
			for _, cfg := range exhConfigs {
				run(t, cfg, src, "exhaustive")
				total++
			}
		}
	}
	kit.R.Note("exhaustive", true)
	kit.R.Note("exhaustive_what", "all strings of length <= "+string(rune('0'+L))+" over a 23-symbol Markdown-significant alphabet x 8 configurations")
	if t.Failed() {
		return
	}
}

// TestExhaustiveLines enumerates line-structured documents: all pairs of
// line atoms (indentation x content) in the quick tier plus all triples over
// a reduced atom set; all triples over the full set in the thorough tier.
func TestExhaustiveLines(t *testing.T) {
	idx := 0
	count := 0
	emit := func(lines ...string) {
		idx++
		if !kit.Mine(idx) {
			return
		}
		src := []byte(strings.Join(lines, "\n"))
		for _, cfg := range exhConfigs[:4] {
			run(t, cfg, src, "exhaustive-lines")
			count++
		}
	}
	full := gen.LineAtoms(true)
	if kit.Thorough() {
		for _, a := range full {
			for _, b := range full {
				for _, c := range full {
					emit(a, b, c)
				}
			}
		}
	} else {
		for _, a := range full {
			for _, b := range full {
				emit(a, b)
			}
		}
		small := gen.LineAtoms(false)
		for _, a := range small {
			for _, b := range small {
				for _, c := range small {
					emit(a, b, c)
				}
			}
		}
	}
	kit.R.Note("exhaustive_lines", fmt.Sprintf("line-structured documents: %d atoms; quick = all pairs + all triples over %d atoms, thorough = all triples", len(full), len(gen.LineAtoms(false))))
}

// TestExhaustiveConstructs enumerates construct-adjacency documents: every
// pair of ~70 block constructs and every triple over 24 (quick) / all
// (thorough) constructs, each joined by a line end or a blank line.
func TestExhaustiveConstructs(t *testing.T) {
	cfgs := []gen.Config{{}, exhConfigs[3], exhConfigs[5], exhConfigs[7]}
	n := gen.EnumConstructDocs(kit.Thorough(), func(idx int, doc []byte) {
		if !kit.Mine(idx) {
			return
		}
		for _, cfg := range cfgs {
			run(t, cfg, doc, "exhaustive-constructs")
		}
	})
	kit.R.Note("exhaustive_constructs", fmt.Sprintf("%d construct-adjacency documents x %d configurations", n, len(cfgs)))
}

func FuzzConvert(f *testing.F) {
	for _, e := range gen.Spec() {
		f.Add(uint16(0), []byte(e.Markdown))
	}
	for i, e := range gen.Extra() {
		f.Add(uint16(i*37), e)
	}
	f.Fuzz(func(t *testing.T, cfgBits uint16, src []byte) {
		if len(src) > 16384 {
			return
		}
		cfg := gen.ConfigFromBits(uint32(cfgBits))
		run(t, cfg, src, "fuzz")
	})
}
