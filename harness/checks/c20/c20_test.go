// Package c20: registered parsers, transformers and renderers are applied
// strictly by priority.
package c20

import (
	"bytes"
	"fmt"
	"math"
	"sort"
	"strconv"
	"strings"
	"testing"

	"github.com/yuin/goldmark"
	"github.com/yuin/goldmark/ast"
	"github.com/yuin/goldmark/parser"
	"github.com/yuin/goldmark/renderer"
	"github.com/yuin/goldmark/renderer/html"
	"github.com/yuin/goldmark/text"
	"github.com/yuin/goldmark/util"
	"pgregory.net/rapid"

	"verif/kit"
)

func TestMain(m *testing.M) {
	kit.Register("priority", priorityOracle)
	kit.Register("unrendered", unrenderedOracle)
	kit.Describe("priority: case = (list of probe components in registration order: block parsers with trigger '@' (no built-in), '#' (shared with the ATX heading parser at 600) or none; inline parsers with trigger '@' or '*' (shared with emphasis at 500); paragraph transformers; AST transformers; node renderers for a probe kind and for Emphasis (built-in renderer at 1000); each with a distinct priority, an accept/decline (or detach) behaviour and one of four registration channels: WithParserOptions/WithRendererOptions, WithExtensions, Parser().AddOptions/Renderer().AddOptions after New, a second extender; or all through caller-owned option lists with spare capacity shared with two decoy sibling instances whose components must never be invoked) and a document of crafted lines (after a blank line, or directly after an open paragraph line where only parsers that can interrupt a paragraph take part, on a first byte some or no parser is triggered by); oracle: the invocation log and the output equal those of a priority-sorted reference dispatch (triggered parsers ascending, then trigger-less ascending, first acceptor wins; transformers ascending, a detaching paragraph transformer ends the chain; the renderer with the smallest priority value wins) and are identical for the canonical sorted single-channel registration of the same set. unrendered: a tree with a node of a kind nobody renders, or of a kind created after the renderer was first used, renders without error and its children are rendered. non-trivial = at least two probes compete for a trigger/kind with a built-in between them in priority and the registration order is not already sorted; distinct by hash of the case",
		"built-in priorities as documented in parser.DefaultBlockParsers/DefaultInlineParsers and the html renderer (verified by a self-test)")
	kit.Main(m, "C20")
}

var callLog []string

var kindProbeBlock = ast.NewNodeKind("VerifProbeBlock")
var kindProbeInline = ast.NewNodeKind("VerifProbeInline")
var kindNobody = ast.NewNodeKind("VerifNobodyRenders")

type probeBlock struct {
	ast.BaseBlock
	name string
}

func (n *probeBlock) Kind() ast.NodeKind         { return kindProbeBlock }
func (n *probeBlock) Dump(src []byte, level int) {}
func (n *probeBlock) IsRaw() bool                { return true }

type probeInline struct {
	ast.BaseInline
	name string
}

func (n *probeInline) Kind() ast.NodeKind         { return kindProbeInline }
func (n *probeInline) Dump(src []byte, level int) {}

type nobodyInline struct {
	ast.BaseInline
	kind ast.NodeKind
}

func (n *nobodyInline) Kind() ast.NodeKind         { return n.kind }
func (n *nobodyInline) Dump(src []byte, level int) {}

// ---- probe components

type comp struct {
	typ     string // bp ip pt at nr
	name    string
	prio    int
	trigger string // "@", "#", "*", "-" (none) ; for nr: kind "probe" | "em"
	accept  bool   // bp/ip: accept; pt: detach
	noInt   bool   // bp: CanInterruptParagraph() == false
	channel int
}

type bpProbe struct{ c comp }

func (p *bpProbe) Trigger() []byte {
	if p.c.trigger == "-" {
		return nil
	}
	if p.c.trigger == "dash" {
		return []byte{'-'}
	}
	return []byte(p.c.trigger)
}
func (p *bpProbe) Open(parent ast.Node, reader text.Reader, pc parser.Context) (ast.Node, parser.State) {
	line, _ := reader.PeekLine()
	if !bytes.Contains(line, []byte("probe")) && !bytes.HasPrefix(line, []byte("---")) {
		return nil, parser.NoChildren // only crafted lines are of interest
	}
	callLog = append(callLog, "bp:"+p.c.name)
	if !p.c.accept {
		return nil, parser.NoChildren
	}
	reader.Advance(len(line))
	return &probeBlock{name: p.c.name}, parser.NoChildren
}
func (p *bpProbe) Continue(node ast.Node, reader text.Reader, pc parser.Context) parser.State {
	return parser.Close
}
func (p *bpProbe) Close(node ast.Node, reader text.Reader, pc parser.Context) {}
func (p *bpProbe) CanInterruptParagraph() bool                                { return !p.c.noInt }
func (p *bpProbe) CanAcceptIndentedLine() bool                                { return false }

type ipProbe struct{ c comp }

func (p *ipProbe) Trigger() []byte { return []byte(p.c.trigger) }
func (p *ipProbe) Parse(parent ast.Node, block text.Reader, pc parser.Context) ast.Node {
	callLog = append(callLog, "ip:"+p.c.name)
	// leave the reader in a moved state on decline: the dispatcher must restore it
	block.Advance(1)
	if !p.c.accept {
		return nil
	}
	return &probeInline{name: p.c.name}
}

type ptProbe struct{ c comp }

func (p *ptProbe) Transform(node *ast.Paragraph, reader text.Reader, pc parser.Context) {
	if node.Lines().Len() == 0 || !bytes.Contains(node.Lines().Value(reader.Source()), []byte("para")) {
		return
	}
	callLog = append(callLog, "pt:"+p.c.name)
	if p.c.accept {
		node.Parent().RemoveChild(node.Parent(), node)
	}
}

type atProbe struct{ c comp }

func (p *atProbe) Transform(node *ast.Document, reader text.Reader, pc parser.Context) {
	callLog = append(callLog, "at:"+p.c.name)
}

type nrProbe struct{ c comp }

func (p *nrProbe) RegisterFuncs(reg renderer.NodeRendererFuncRegisterer) {
	f := func(w util.BufWriter, source []byte, n ast.Node, entering bool) (ast.WalkStatus, error) {
		if entering {
			_, _ = w.WriteString("{" + p.c.name + ":")
			if b, ok := n.(*probeBlock); ok {
				_, _ = w.WriteString(b.name)
			}
			if b, ok := n.(*probeInline); ok {
				_, _ = w.WriteString(b.name)
			}
		} else {
			_, _ = w.WriteString("}")
		}
		return ast.WalkContinue, nil
	}
	switch p.c.trigger {
	case "probe":
		reg.Register(kindProbeBlock, f)
		reg.Register(kindProbeInline, f)
	case "em":
		reg.Register(ast.KindEmphasis, f)
	}
}

func parseSpec(s string) []comp {
	var out []comp
	for _, f := range strings.Fields(s) {
		p := strings.Split(f, ":")
		if len(p) != 6 {
			continue
		}
		prio, _ := strconv.Atoi(p[2])
		ch, _ := strconv.Atoi(p[5])
		out = append(out, comp{typ: p[0], name: p[1], prio: prio, trigger: p[3], accept: p[4] == "1" || p[4] == "3", noInt: p[4] == "2" || p[4] == "3", channel: ch})
	}
	return out
}

func (c comp) String() string {
	a := "0"
	if c.accept {
		a = "1"
	}
	if c.noInt {
		a = map[string]string{"0": "2", "1": "3"}[a]
	}
	return fmt.Sprintf("%s:%s:%d:%s:%s:%d", c.typ, c.name, c.prio, c.trigger, a, c.channel)
}

type ext struct{ comps []comp }

func parserOpts(cs []comp) []parser.Option {
	var o []parser.Option
	for _, c := range cs {
		switch c.typ {
		case "bp":
			o = append(o, parser.WithBlockParsers(util.Prioritized(&bpProbe{c}, c.prio)))
		case "ip":
			o = append(o, parser.WithInlineParsers(util.Prioritized(&ipProbe{c}, c.prio)))
		case "pt":
			o = append(o, parser.WithParagraphTransformers(util.Prioritized(&ptProbe{c}, c.prio)))
		case "at":
			o = append(o, parser.WithASTTransformers(util.Prioritized(&atProbe{c}, c.prio)))
		}
	}
	return o
}
func rendererOpts(cs []comp) []renderer.Option {
	var o []renderer.Option
	for _, c := range cs {
		if c.typ == "nr" {
			o = append(o, renderer.WithNodeRenderers(util.Prioritized(&nrProbe{c}, c.prio)))
		}
	}
	return o
}

func (e *ext) Extend(m goldmark.Markdown) {
	m.Parser().AddOptions(parserOpts(e.comps)...)
	m.Renderer().AddOptions(rendererOpts(e.comps)...)
}

func build(cs []comp) goldmark.Markdown {
	var ch [4][]comp
	for _, c := range cs {
		ch[c.channel%4] = append(ch[c.channel%4], c)
	}
	md := goldmark.New(
		goldmark.WithParserOptions(parserOpts(ch[0])...),
		goldmark.WithRendererOptions(rendererOpts(ch[0])...),
		goldmark.WithExtensions(&ext{ch[1]}, &ext{ch[3]}),
	)
	md.Parser().AddOptions(parserOpts(ch[2])...)
	md.Renderer().AddOptions(rendererOpts(ch[2])...)
	return md
}

// buildShared registers the built-in lists through caller-owned slices that have spare capacity and are
// handed to three objects (a decoy before, the instance under test, a decoy after - all before first use):
// objects configured from the same option values must stay independent of each other, so only the
// instance's own components may ever be invoked.
func buildShared(cs []comp) goldmark.Markdown {
	bp := append(make([]util.PrioritizedValue, 0, 64), parser.DefaultBlockParsers()...)
	ip := append(make([]util.PrioritizedValue, 0, 64), parser.DefaultInlineParsers()...)
	pt := append(make([]util.PrioritizedValue, 0, 64), parser.DefaultParagraphTransformers()...)
	nr := append(make([]util.PrioritizedValue, 0, 64), util.Prioritized(html.NewRenderer(), 1000))
	mk := func(cs []comp) goldmark.Markdown {
		po := append([]parser.Option{parser.WithBlockParsers(bp...), parser.WithInlineParsers(ip...), parser.WithParagraphTransformers(pt...)}, parserOpts(cs)...)
		ro := append([]renderer.Option{renderer.WithNodeRenderers(nr...)}, rendererOpts(cs)...)
		return goldmark.New(goldmark.WithParser(parser.NewParser(po...)), goldmark.WithRenderer(renderer.NewRenderer(ro...)))
	}
	decoy := func(tag string, base int) []comp {
		return []comp{
			{typ: "bp", name: tag + "b1", prio: base, trigger: "@", accept: true}, {typ: "bp", name: tag + "b2", prio: base + 1, trigger: "-", accept: true},
			{typ: "bp", name: tag + "b3", prio: base + 2, trigger: "#", accept: true}, {typ: "ip", name: tag + "i1", prio: base + 3, trigger: "@", accept: true},
			{typ: "ip", name: tag + "i2", prio: base + 4, trigger: "*", accept: true}, {typ: "pt", name: tag + "p1", prio: base + 5, trigger: "-", accept: true},
			{typ: "at", name: tag + "a1", prio: base + 6, trigger: "-"}, {typ: "nr", name: tag + "r1", prio: base + 7, trigger: "em"}, {typ: "nr", name: tag + "r2", prio: base + 8, trigger: "probe"},
		}
	}
	_ = mk(decoy("decoyA", -7777771))
	md := mk(cs)
	_ = mk(decoy("decoyB", -8888881))
	return md
}

func runDoc(md goldmark.Markdown, doc []byte) (string, []string, error) {
	callLog = nil
	var b bytes.Buffer
	err := md.Convert(doc, &b)
	return b.String(), append([]string(nil), callLog...), err
}

// ---- reference dispatch

type cand struct {
	name    string
	prio    int
	builtin bool
	accept  bool
}

func firstAcceptor(cs []cand) (calls []string, winner *cand) {
	sort.SliceStable(cs, func(i, j int) bool { return cs[i].prio < cs[j].prio })
	for i := range cs {
		if !cs[i].builtin {
			calls = append(calls, cs[i].name)
		}
		if cs[i].accept {
			return calls, &cs[i]
		}
	}
	return calls, nil
}

// expectedBlockLine: candidates for a crafted line starting with trigger tr.
func expectedBlockLine(cs []comp, tr string, builtinPrio int, builtinAccepts bool) ([]string, *cand) {
	var trig, free []cand
	hasTrig := false
	for _, c := range cs {
		if c.typ != "bp" {
			continue
		}
		if c.trigger == tr {
			trig = append(trig, cand{name: c.name, prio: c.prio, accept: c.accept})
			hasTrig = true
		} else if c.trigger == "-" {
			free = append(free, cand{name: c.name, prio: c.prio, accept: c.accept})
		}
	}
	if builtinPrio > 0 {
		trig = append(trig, cand{name: "builtin", prio: builtinPrio, builtin: true, accept: builtinAccepts})
		hasTrig = true
	}
	_ = hasTrig
	// trigger-less: indented code (500, declines an unindented line), paragraph (1000, accepts)
	free = append(free, cand{name: "codeblock", prio: 500, builtin: true}, cand{name: "paragraph", prio: 1000, builtin: true, accept: true})
	calls, w := firstAcceptor(trig)
	if w != nil {
		return calls, w
	}
	calls2, w2 := firstAcceptor(free)
	return append(calls, calls2...), w2
}

var docLines = map[string]string{
	"at":     "@ probe line\n",
	"hvalid": "# probe heading\n",
	"hbad":   "#probe not a heading\n",
	"para":   "para text\n",
	"inl@":   "para a @ b\n",
	"inl*":   "para a *x* b\n",
	"inlu@":  "para a\xe2@ b\n",   // a truncated multi-byte sequence right in front of the trigger byte
	"inlu*":  "para a\xc3*x* b\n", // (the trigger is still a byte of its own and must be dispatched)
	"inlb@":  "para \\a@ b\n",     // a literal backslash (before a letter), plain bytes, then the trigger: the escape ended with its byte
	"inlb*":  "para \\a*x* b\n",
	"inle@":  "para \\\\@ b\n", // an escaped backslash directly in front of the trigger
	"inle*":  "para \\\\*x* b\n",
	"plain":  "plain\n",
	"defhr":  "[foo]: /url\n---\n",
	"pint%":  "plain\n% probe line\n", // a crafted line directly after an open paragraph, first byte nobody is triggered by
	"pint@":  "plain\n@ probe line\n", // the same with a byte some probes are triggered by
}

func rendererFor(cs []comp, kind string, builtinPrio int) string {
	best, bestPrio, found := "", 0, false
	if builtinPrio > 0 {
		best, bestPrio, found = "builtin", builtinPrio, true
	}
	for _, c := range cs {
		if c.typ == "nr" && c.trigger == kind && (!found || c.prio < bestPrio) {
			best, bestPrio, found = c.name, c.prio, true
		}
	}
	return best
}

var lastNontrivial bool

func priorityOracle(c *kit.Case) error {
	cs := parseSpec(c.Strs["spec"])
	// distinct priorities are a precondition (also different from the built-ins)
	seen := map[int]bool{100: true, 200: true, 300: true, 400: true, 500: true, 600: true, 700: true, 800: true, 900: true, 1000: true}
	for _, x := range cs {
		if seen[x.prio] {
			return nil
		}
		seen[x.prio] = true
	}
	keys := strings.Fields(c.Strs["doc"])
	var doc []byte
	for _, k := range keys {
		doc = append(doc, docLines[k]...)
		doc = append(doc, '\n')
	}
	mk := build
	if c.Ints["shared"] != 0 {
		mk = buildShared
	}
	out, log, err := runDoc(mk(cs), doc)
	if err != nil {
		return kit.Violf("error", "Convert returned %v", err)
	}
	// canonical registration: sorted by priority, single channel
	canon := append([]comp(nil), cs...)
	sort.SliceStable(canon, func(i, j int) bool { return canon[i].prio < canon[j].prio })
	for i := range canon {
		canon[i].channel = 0
	}
	out2, log2, _ := runDoc(build(canon), doc)
	if out != out2 || strings.Join(log, " ") != strings.Join(log2, " ") {
		return kit.Violf("registration-order-matters", "registration %q\n gives output %q log %v\n canonical sorted registration gives output %q log %v", c.Strs["spec"], out, log, out2, log2)
	}
	// reference dispatch
	var want []string
	probeRenderer := rendererFor(cs, "probe", 0)
	emRenderer := rendererFor(cs, "em", 1000)
	var wantOut strings.Builder
	renderProbe := func(name string, inline bool) string {
		if probeRenderer == "" {
			return ""
		}
		return "{" + probeRenderer + ":" + name + "}"
	}
	ptLog := func() (calls []string, detached bool) {
		var pts []cand
		for _, x := range cs {
			if x.typ == "pt" {
				pts = append(pts, cand{name: x.name, prio: x.prio, accept: x.accept})
			}
		}
		calls, w := firstAcceptor(pts)
		return calls, w != nil
	}
	inlineCalls := func(tr string, builtinPrio int) ([]string, *cand) {
		var ips []cand
		for _, x := range cs {
			if x.typ == "ip" && x.trigger == tr {
				ips = append(ips, cand{name: x.name, prio: x.prio, accept: x.accept})
			}
		}
		if builtinPrio > 0 {
			ips = append(ips, cand{name: "builtin", prio: builtinPrio, builtin: true, accept: true})
		}
		return firstAcceptor(ips)
	}
	type pending struct{ calls []string }
	var inlineLogs []string // inline parsing happens after all blocks are parsed
	var ptLogs []string
	for _, k := range keys {
		switch k {
		case "at", "hvalid", "hbad":
			tr, bprio, bacc := "@", 0, false
			if k != "at" {
				tr, bprio, bacc = "#", 600, k == "hvalid"
			}
			calls, w := expectedBlockLine(cs, tr, bprio, bacc)
			for _, n := range calls {
				want = append(want, "bp:"+n)
			}
			switch {
			case w == nil:
			case w.builtin && w.name == "builtin":
				wantOut.WriteString("<h1>probe heading</h1>\n")
			case w.builtin && w.name == "paragraph":
				// the line became a paragraph; paragraph transformers only look at 'para' paragraphs
				line := strings.TrimSuffix(docLines[k], "\n")
				if k == "at" {
					// '@' inline probes see the '@' of this paragraph as well
					ic, iw := inlineCalls("@", 0)
					for _, n := range ic {
						inlineLogs = append(inlineLogs, "ip:"+n)
					}
					if iw != nil {
						wantOut.WriteString("<p>" + renderProbe(iw.name, true) + " probe line</p>\n")
					} else {
						wantOut.WriteString("<p>" + line + "</p>\n")
					}
				} else {
					wantOut.WriteString("<p>" + line + "</p>\n")
				}
			default:
				wantOut.WriteString(renderProbe(w.name, false))
			}
		case "pint%", "pint@":
			// the crafted line follows an open paragraph: only parsers that can interrupt a paragraph are
			// tried - triggered ones ascending, then the trigger-less ones ascending (the built-in
			// trigger-less parsers, indented code and paragraph, cannot interrupt); if nobody accepts the
			// line continues the paragraph
			tr := k[4:]
			var trig, free []cand
			for _, x := range cs {
				if x.typ != "bp" || x.noInt {
					continue
				}
				if x.trigger == tr {
					trig = append(trig, cand{name: x.name, prio: x.prio, accept: x.accept})
				} else if x.trigger == "-" {
					free = append(free, cand{name: x.name, prio: x.prio, accept: x.accept})
				}
			}
			calls, w := firstAcceptor(trig)
			if w == nil {
				var calls2 []string
				calls2, w = firstAcceptor(free)
				calls = append(calls, calls2...)
			}
			for _, n := range calls {
				want = append(want, "bp:"+n)
			}
			switch {
			case w != nil:
				wantOut.WriteString("<p>plain</p>\n" + renderProbe(w.name, false))
			case tr == "@":
				ic, iw := inlineCalls("@", 0)
				for _, n := range ic {
					inlineLogs = append(inlineLogs, "ip:"+n)
				}
				if iw != nil {
					wantOut.WriteString("<p>plain\n" + renderProbe(iw.name, true) + " probe line</p>\n")
				} else {
					wantOut.WriteString("<p>plain\n@ probe line</p>\n")
				}
			default:
				wantOut.WriteString("<p>plain\n% probe line</p>\n")
			}
		case "defhr":
			// "[foo]: /url" then "---": while the definition paragraph is open only
			// parsers that can interrupt a paragraph are tried; the setext parser (100)
			// takes the line, the paragraph turns out to be a definition and disappears,
			// and the line is offered again to ALL parsers in priority order; the
			// thematic break parser (200) finally accepts.
			var pass1, pass2 []cand
			for _, x := range cs {
				if x.typ == "bp" && x.trigger == "dash" {
					if x.prio < 100 && !x.noInt {
						pass1 = append(pass1, cand{name: x.name, prio: x.prio, accept: x.accept})
					}
					if x.prio < 200 {
						pass2 = append(pass2, cand{name: x.name, prio: x.prio, accept: x.accept})
					}
				}
			}
			calls, w := firstAcceptor(pass1)
			for _, n := range calls {
				want = append(want, "bp:"+n)
			}
			if w == nil {
				calls, w = firstAcceptor(pass2)
				for _, n := range calls {
					want = append(want, "bp:"+n)
				}
			}
			if w != nil {
				wantOut.WriteString(renderProbe(w.name, false))
			} else {
				wantOut.WriteString("<hr>\n")
			}
		case "para", "plain", "inl@", "inl*", "inlu@", "inlu*", "inlb@", "inlb*", "inle@", "inle*":
			line := strings.TrimSuffix(docLines[k], "\n")
			pre := "para a "
			if len(k) == 5 && strings.HasPrefix(k, "inl") {
				pre = map[string]string{"inlu@": "para a\xe2", "inlu*": "para a\xc3", "inlb@": "para \\a", "inlb*": "para \\a", "inle@": "para \\", "inle*": "para \\"}[k]
				if k[3] == 'e' {
					line = strings.Replace(line, "\\\\", "\\", 1) // the escaped backslash is rendered as one
				}
				k = "inl" + k[4:]
			}
			detached := false
			if k != "plain" {
				var calls []string
				calls, detached = ptLog()
				for _, n := range calls {
					ptLogs = append(ptLogs, "pt:"+n)
				}
			}
			_ = ptLogs
			if detached {
				// closeBlocks runs the transformers when the paragraph is closed: log position = now
				want = append(want, ptLogs...)
				ptLogs = nil
				continue
			}
			want = append(want, ptLogs...)
			ptLogs = nil
			switch k {
			case "inl@":
				ic, iw := inlineCalls("@", 0)
				for _, n := range ic {
					inlineLogs = append(inlineLogs, "ip:"+n)
				}
				if iw != nil {
					wantOut.WriteString("<p>" + pre + renderProbe(iw.name, true) + " b</p>\n")
				} else {
					wantOut.WriteString("<p>" + line + "</p>\n")
				}
			case "inl*":
				// two '*' characters: opener and closer
				var segs [2]string
				emOpen, emClose := "<em>", "</em>"
				if emRenderer != "builtin" {
					emOpen, emClose = "{"+emRenderer+":", "}"
				}
				for i := 0; i < 2; i++ {
					ic, iw := inlineCalls("*", 500)
					for _, n := range ic {
						inlineLogs = append(inlineLogs, "ip:"+n)
					}
					if iw != nil && !iw.builtin {
						segs[i] = renderProbe(iw.name, true)
					} else {
						segs[i] = "*"
					}
				}
				switch {
				case segs[0] == "*" && segs[1] == "*":
					wantOut.WriteString("<p>" + pre + emOpen + "x" + emClose + " b</p>\n")
				default:
					wantOut.WriteString("<p>" + pre + segs[0] + "x" + segs[1] + " b</p>\n")
				}
			default:
				wantOut.WriteString("<p>" + line + "</p>\n")
			}
		}
	}
	want = append(want, inlineLogs...)
	var ats []cand
	for _, x := range cs {
		if x.typ == "at" {
			ats = append(ats, cand{name: x.name, prio: x.prio})
		}
	}
	atCalls, _ := firstAcceptor(ats)
	for _, n := range atCalls {
		want = append(want, "at:"+n)
	}
	if strings.Join(log, " ") != strings.Join(want, " ") {
		return kit.Violf("dispatch-order", "components %q on %q\n invocation log %v\n reference      %v", c.Strs["spec"], doc, log, want)
	}
	if out != wantOut.String() {
		return kit.Violf("dispatch-output", "components %q on %q\n output    %q\n reference %q", c.Strs["spec"], doc, out, wantOut.String())
	}
	// non-triviality
	lastNontrivial = false
	sorted := sort.SliceIsSorted(cs, func(i, j int) bool { return cs[i].prio < cs[j].prio })
	count := func(typ, tr string, lo, hi int) (below, above int) {
		for _, x := range cs {
			if x.typ == typ && x.trigger == tr {
				if x.prio < lo {
					below++
				}
				if x.prio > hi {
					above++
				}
			}
		}
		return
	}
	b1, a1 := count("bp", "#", 600, 600)
	b2, a2 := count("ip", "*", 500, 500)
	b3, a3 := count("nr", "em", 1000, 1000)
	if !sorted && (b1 > 0 && a1 > 0 || b2 > 0 && a2 > 0 || b3 > 0 && a3 > 0) {
		lastNontrivial = true
	}
	return nil
}

// unrendered kinds
func unrenderedOracle(c *kit.Case) error {
	md := goldmark.New()
	mk := func(kind ast.NodeKind) ast.Node {
		doc := ast.NewDocument()
		p := ast.NewParagraph()
		u := &nobodyInline{kind: kind}
		u.AppendChild(u, ast.NewString([]byte("child")))
		p.AppendChild(p, ast.NewString([]byte("a ")))
		p.AppendChild(p, u)
		doc.AppendChild(doc, p)
		return doc
	}
	want := "<p>a child</p>\n"
	render := func(doc ast.Node, what string) error {
		var b bytes.Buffer
		var err error
		func() {
			defer func() {
				if r := recover(); r != nil {
					err = fmt.Errorf("panic: %v", r)
				}
			}()
			err = md.Renderer().Render(&b, nil, doc)
		}()
		if err != nil {
			return kit.Violf("unrendered-kind-fails", "%s: %v", what, err)
		}
		if b.String() != want {
			return kit.Violf("unrendered-kind-output", "%s: output %q want %q", what, b.String(), want)
		}
		return nil
	}
	nearly := int(c.Ints["extra"])
	if c.Ints["late"] == 0 {
		return render(mk(kindNobody), "node of a kind without renderer function")
	}
	// first use initialises the dispatch table; kinds created afterwards lie beyond it
	if err := render(mk(kindNobody), "first render"); err != nil {
		return err
	}
	var late ast.NodeKind
	for i := 0; i <= nearly; i++ {
		late = ast.NewNodeKind("VerifLateKind")
	}
	return render(mk(late), "node of a kind created after the renderer was initialised")
}

// ---- self-test of the assumptions about built-ins

func TestSelfBuiltins(t *testing.T) {
	declining := parseSpec("bp:a:590:#:0:0 bp:b:610:#:0:0 ip:c:490:*:0:0 ip:d:510:*:0:0 bp:f:990:-:0:0 bp:g:1010:-:0:0")
	_, log, _ := runDoc(build(declining), []byte("# probe heading\n\n#probe not\n\npara *x*\n"))
	got := strings.Join(log, " ")
	want := "bp:a bp:a bp:b bp:f ip:c ip:c"
	if got != want {
		fmt.Printf("HARNESS-ERROR C20 assumptions about built-in priorities/acceptance do not hold: log %q want %q\n", got, want)
		t.Fail()
	}
}

func TestKnown(t *testing.T)  { kit.RunKnown(t) }
func TestReplay(t *testing.T) { kit.RunReplay(t) }

func TestPriority(t *testing.T) {
	kit.Rapid(t, "priority", 100000, 4000000, func(t *rapid.T) {
		var cs []comp
		used := map[int]bool{}
		prio := func(around int) int {
			for {
				var p int
				if rapid.IntRange(0, 11).Draw(t, "extreme") == 0 {
					p = rapid.SampledFrom([]int{math.MinInt, math.MinInt + 1, math.MaxInt, math.MaxInt - 1, -1, -1000001, math.MinInt32, math.MaxInt32, 1 << 40}).Draw(t, "xp")
				} else if around > 0 && rapid.Bool().Draw(t, "near") {
					p = around + rapid.IntRange(-99, 99).Draw(t, "dp")
				} else {
					p = rapid.IntRange(1, 1500).Draw(t, "p")
				}
				if p%100 != 0 && !used[p] {
					used[p] = true
					return p
				}
			}
		}
		name := func(i int) string { return string(rune('a'+len(cs))) + strconv.Itoa(i) }
		add := func(typ string, n int, triggers []string, around map[string]int) {
			for i := 0; i < n; i++ {
				tr := rapid.SampledFrom(triggers).Draw(t, typ+"tr")
				cs = append(cs, comp{typ: typ, name: name(i), prio: prio(around[tr]), trigger: tr,
					accept: rapid.IntRange(0, 2).Draw(t, typ+"acc") == 0, channel: rapid.IntRange(0, 3).Draw(t, typ+"ch"),
					noInt: typ == "bp" && rapid.IntRange(0, 3).Draw(t, typ+"noint") == 0})
			}
		}
		// crowded: one case in six registers many components for the same trigger (dispatch lists of 8, 16 ... entries:
		// whatever is kept per list position - bit masks, small arrays - has to cope)
		crowd := 0
		if rapid.IntRange(0, 5).Draw(t, "crowded") == 0 {
			crowd = rapid.IntRange(4, 14).Draw(t, "crowd")
			kit.R.Class("crowded-dispatch-lists")
		}
		add("bp", rapid.IntRange(2, 5).Draw(t, "nbp")+crowd/2, []string{"@", "#", "#", "-"}, map[string]int{"#": 600, "-": 1000})
		// block parsers on '-' (shared with setext 100 / thematic break 200 / list 300), some of which cannot interrupt a paragraph
		for i, n := 0, rapid.IntRange(0, 3).Draw(t, "ndash")+crowd; i < n; i++ {
			cs = append(cs, comp{typ: "bp", name: "d" + strconv.Itoa(i), prio: prio(150), trigger: "dash",
				accept: rapid.IntRange(0, 2).Draw(t, "dacc") == 0, noInt: rapid.Bool().Draw(t, "noint"), channel: rapid.IntRange(0, 3).Draw(t, "dch")})
		}
		add("ip", rapid.IntRange(2, 5).Draw(t, "nip")+crowd/2, []string{"@", "*", "*"}, map[string]int{"*": 500})
		add("pt", rapid.IntRange(0, 4).Draw(t, "npt"), []string{"-"}, map[string]int{"-": 100})
		add("at", rapid.IntRange(0, 4).Draw(t, "nat"), []string{"-"}, nil)
		add("nr", rapid.IntRange(1, 4).Draw(t, "nnr"), []string{"probe", "em", "em"}, map[string]int{"em": 1000})
		// shuffle the registration order
		perm := rapid.Permutation(cs).Draw(t, "order")
		var parts []string
		for _, c := range perm {
			parts = append(parts, c.String())
		}
		nk := rapid.IntRange(2, 6).Draw(t, "nlines")
		var keys []string
		for i := 0; i < nk; i++ {
			keys = append(keys, rapid.SampledFrom([]string{"at", "hvalid", "hbad", "para", "inl@", "inl*", "plain", "defhr", "pint%", "pint@", "inlu@", "inlu*", "inlb@", "inlb*", "inle@", "inle*"}).Draw(t, "line"))
		}
		c := kit.NewCase("priority", "").S("spec", strings.Join(parts, " ")).S("doc", strings.Join(keys, " "))
		if rapid.IntRange(0, 4).Draw(t, "shared") == 0 {
			c.I("shared", 1)
			kit.R.Class("shared-option-lists-with-sibling-instances")
		}
		lastNontrivial = false
		if kit.Check(t, c) {
			kit.R.Class("priority-configurations")
			if lastNontrivial {
				kit.R.NonTrivial(c)
			}
		}
	})
}

func TestUnrendered(t *testing.T) {
	for late := 0; late <= 1; late++ {
		for extra := 0; extra < 3; extra++ {
			c := kit.NewCase("unrendered", "").I("late", int64(late)).I("extra", int64(extra))
			if kit.Check(t, c) {
				kit.R.Class("unrendered-kind")
				kit.R.NonTrivial(c)
			}
		}
	}
}
