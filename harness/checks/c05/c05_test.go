// Package c05: every parsed AST is a well-formed tree with all positions
// inside the source.
package c05

import (
	"fmt"
	"strings"
	"testing"

	"github.com/yuin/goldmark/parser"
	"github.com/yuin/goldmark/text"
	"pgregory.net/rapid"

	"verif/gen"
	"verif/kit"
	"verif/oracle"
)

func TestMain(m *testing.M) {
	kit.Register("ast", astOracle)
	kit.Describe("case = (configuration, source) from the shared generators (soup, line-structured soup, repository test inputs and mutations, deep nesting, exhaustive short strings); optionally preceded by another document parsed with the same caller-supplied parser.Context; every node of the tree returned by Parser.Parse is validated; non-trivial = tree depth >= 3 or a node re-parented by a transformer/Close handler (table, footnote, definition list, setext heading, tight-list TextBlock); distinct by hash of (configuration, source)",
		"node kinds are compared with the public vocabulary of core + enabled extensions", "documents up to 16 KiB")
	kit.Main(m, "C05")
}

var last oracle.ASTStats

func extKinds(cfg gen.Config) oracle.ExtKinds {
	return oracle.ExtKinds{Table: cfg.HasTable(), Strike: cfg.HasStrike(), Task: cfg.HasTask(), DefList: cfg.DefList, Footnote: cfg.Footnote}
}

func astOracle(c *kit.Case) error {
	cfg := gen.ParseConfig(c.Config)
	src := c.Bytes["src"]
	var opts []parser.ParseOption
	if prev, ok := c.Bytes["prev"]; ok {
		// an earlier document parsed with the same caller-supplied parser.Context: nothing of its tree
		// (nodes, positions into the other source) may turn up in this one
		ctx := parser.NewContext()
		_ = cfg.MD().Parser().Parse(text.NewReader(prev), parser.WithContext(ctx))
		opts = append(opts, parser.WithContext(ctx))
	}
	doc := cfg.MD().Parser().Parse(text.NewReader(src), opts...)
	st, err := oracle.CheckAST(doc, src, extKinds(cfg))
	last = st
	if err != nil {
		return kit.Violf("ast", "%v", err)
	}
	return nil
}

func run(t kit.TB, cfg gen.Config, src []byte, class string) {
	c := kit.NewCase("ast", cfg.String()).B("src", src)
	last = oracle.ASTStats{}
	if kit.Check(t, c) {
		kit.R.Class("gen:" + class)
		if last.Depth >= 3 || last.Reparent {
			kit.R.NonTrivial(c)
			kit.R.Class("nontrivial")
		}
		if last.Reparent {
			kit.R.Class("reparented")
		}
		for k := range last.Kinds {
			kit.R.Class("kind:" + k)
		}
	}
}

func TestKnown(t *testing.T)  { kit.RunKnown(t) }
func TestReplay(t *testing.T) { kit.RunReplay(t) }

func TestDocs(t *testing.T) {
	kit.Rapid(t, "docs", 400000, 16000000, func(t *rapid.T) {
		cfg := gen.DrawConfig(t, gen.ConfigOpts{})
		src, class := gen.Doc(t, gen.Any, kit.Pick(40, 120), "d")
		run(t, cfg, src, class)
	})
}

func TestSharedContext(t *testing.T) {
	kit.Rapid(t, "shared-context", 40000, 2000000, func(t *rapid.T) {
		cfg := gen.DrawConfig(t, gen.ConfigOpts{})
		prev, _ := gen.Doc(t, gen.Any, kit.Pick(40, 120), "p")
		src, class := gen.Doc(t, gen.Any, kit.Pick(20, 60), "d")
		c := kit.NewCase("ast", cfg.String()).B("src", src).B("prev", prev)
		last = oracle.ASTStats{}
		if kit.Check(t, c) {
			kit.R.Class("gen:shared-context:" + class)
			if last.Depth >= 3 || last.Reparent {
				kit.R.NonTrivial(c)
			}
		}
	})
}

func TestNest(t *testing.T) {
	kit.Rapid(t, "nest", 2000, 160000, func(t *rapid.T) {
		cfg := gen.DrawConfig(t, gen.ConfigOpts{})
		src := gen.Nest(t, gen.Any, 16384, "n")
		run(t, cfg, src, "nest")
	})
}

var exhAlphabet = []string{"a", " ", "\t", "\n", "\r", "#", "-", "*", "_", "`", ">", "<", "[", "]", "(", ")", "!", "\\", "&", "|", ":", "\x80", "é"}

var exhConfigs = []gen.Config{
	{},
	{GFM: true, DefList: true, Footnote: true, Typo: true, AutoID: true, Attr: true},
	{CJK: 1, GFM: true},
	{DefList: true, Footnote: true, Typo: true},
}

func TestExhaustive(t *testing.T) {
	L := kit.Pick(3, 4)
	n := len(exhAlphabet)
	idx := 0
	for l := 0; l <= L; l++ {
		count := 1
		for i := 0; i < l; i++ {
			count *= n
		}
		for v := 0; v < count; v++ {
			idx++
			if !kit.Mine(idx) {
				continue
			}
			var src []byte
			x := v
			for i := 0; i < l; i++ {
				src = append(src, exhAlphabet[x%n]...)
				x /= n
			}
			for _, cfg := range exhConfigs {
				run(t, cfg, src, "exhaustive")
			}
		}
	}
	kit.R.Note("exhaustive", true)
	kit.R.Note("exhaustive_what", "all strings of length <= "+string(rune('0'+L))+" over a 23-symbol Markdown-significant alphabet x 4 configurations")
}

// TestExhaustiveLines enumerates line-structured documents: all pairs of
// line atoms (indentation x content) in the quick tier plus all triples over
// a reduced atom set; all triples over the full set in the thorough tier.
func TestExhaustiveLines(t *testing.T) {
	idx := 0
	count := 0
	emit := func(lines ...string) {
		idx++
		if !kit.Mine(idx) {
			return
		}
		src := []byte(strings.Join(lines, "\n"))
		for _, cfg := range exhConfigs[:2] {
			run(t, cfg, src, "exhaustive-lines")
			count++
		}
	}
	full := gen.LineAtoms(true)
	if kit.Thorough() {
		for _, a := range full {
			for _, b := range full {
				for _, c := range full {
					emit(a, b, c)
				}
			}
		}
	} else {
		for _, a := range full {
			for _, b := range full {
				emit(a, b)
			}
		}
		small := gen.LineAtoms(false)
		for _, a := range small {
			for _, b := range small {
				for _, c := range small {
					emit(a, b, c)
				}
			}
		}
	}
	kit.R.Note("exhaustive_lines", fmt.Sprintf("line-structured documents: %d atoms; quick = all pairs + all triples over %d atoms, thorough = all triples", len(full), len(gen.LineAtoms(false))))
}

// TestExhaustiveConstructs enumerates construct-adjacency documents: every
// pair of ~70 block constructs and every triple over 24 (quick) / all
// (thorough) constructs, each joined by a line end or a blank line.
func TestExhaustiveConstructs(t *testing.T) {
	cfgs := []gen.Config{{}, exhConfigs[1], exhConfigs[3]}
	n := gen.EnumConstructDocs(kit.Thorough(), func(idx int, doc []byte) {
		if !kit.Mine(idx) {
			return
		}
		for _, cfg := range cfgs {
			run(t, cfg, doc, "exhaustive-constructs")
		}
	})
	kit.R.Note("exhaustive_constructs", fmt.Sprintf("%d construct-adjacency documents x %d configurations", n, len(cfgs)))
}

func FuzzAST(f *testing.F) {
	for _, e := range gen.Spec() {
		f.Add(uint16(0), []byte(e.Markdown))
	}
	for i, e := range gen.Extra() {
		f.Add(uint16(i*37), e)
	}
	f.Fuzz(func(t *testing.T, cfgBits uint16, src []byte) {
		if len(src) > 16384 {
			return
		}
		run(t, gen.ConfigFromBits(uint32(cfgBits)), src, "fuzz")
	})
}
