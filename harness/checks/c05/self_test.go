package c05

import (
	"fmt"
	"testing"

	"github.com/yuin/goldmark/ast"
	"github.com/yuin/goldmark/text"

	"verif/oracle"
)

// TestSelfValidator: hand-built malformed trees must be rejected, a plain
// well-formed tree accepted (harness self-check, exit 2 on failure).
func TestSelfValidator(t *testing.T) {
	src := []byte("abc def\n")
	mk := func() (*ast.Document, *ast.Paragraph) {
		d := ast.NewDocument()
		p := ast.NewParagraph()
		p.Lines().Append(text.NewSegment(0, 8))
		d.AppendChild(d, p)
		return d, p
	}
	ext := oracle.ExtKinds{}
	d, p := mk()
	p.AppendChild(p, ast.NewTextSegment(text.NewSegment(0, 3)))
	p.AppendChild(p, ast.NewTextSegment(text.NewSegment(4, 7)))
	if _, err := oracle.CheckAST(d, src, ext); err != nil {
		fmt.Printf("HARNESS-ERROR C05 validator rejects a well-formed tree: %v\n", err)
		t.Fail()
	}
	bad := map[string]func() ast.Node{
		"segment beyond the source": func() ast.Node {
			d, p := mk()
			p.AppendChild(p, ast.NewTextSegment(text.NewSegment(4, 20)))
			return d
		},
		"start after stop": func() ast.Node {
			d, p := mk()
			p.AppendChild(p, ast.NewTextSegment(text.NewSegment(5, 3)))
			return d
		},
		"text out of order": func() ast.Node {
			d, p := mk()
			p.AppendChild(p, ast.NewTextSegment(text.NewSegment(4, 7)))
			p.AppendChild(p, ast.NewTextSegment(text.NewSegment(0, 3)))
			return d
		},
		"link in link": func() ast.Node {
			d, p := mk()
			l1, l2 := ast.NewLink(), ast.NewLink()
			l1.AppendChild(l1, l2)
			p.AppendChild(p, l1)
			return d
		},
		"heading level 7": func() ast.Node {
			d, _ := mk()
			d.AppendChild(d, ast.NewHeading(7))
			return d
		},
		"emphasis level 3": func() ast.Node {
			d, p := mk()
			p.AppendChild(p, ast.NewEmphasis(3))
			return d
		},
		"list item outside a list": func() ast.Node {
			d, _ := mk()
			d.AppendChild(d, ast.NewListItem(2))
			return d
		},
		"inline below the document": func() ast.Node {
			d, _ := mk()
			d.AppendChild(d, ast.NewText())
			return d
		},
		"block below inline": func() ast.Node {
			d, p := mk()
			e := ast.NewEmphasis(1)
			e.AppendChild(e, ast.NewParagraph())
			p.AppendChild(p, e)
			return d
		},
		"non-text in code span": func() ast.Node {
			d, p := mk()
			c := ast.NewCodeSpan()
			c.AppendChild(c, ast.NewEmphasis(1))
			p.AppendChild(p, c)
			return d
		},
		"lines out of order": func() ast.Node {
			d := ast.NewDocument()
			p := ast.NewParagraph()
			p.Lines().Append(text.NewSegment(4, 8))
			p.Lines().Append(text.NewSegment(0, 4))
			d.AppendChild(d, p)
			return d
		},
		"broken previous-sibling link": func() ast.Node {
			d, p := mk()
			a, b := ast.NewTextSegment(text.NewSegment(0, 1)), ast.NewTextSegment(text.NewSegment(1, 2))
			p.AppendChild(p, a)
			p.AppendChild(p, b)
			b.SetPreviousSibling(nil)
			return d
		},
		"stale parent": func() ast.Node {
			d, p := mk()
			a := ast.NewTextSegment(text.NewSegment(0, 1))
			p.AppendChild(p, a)
			a.SetParent(d)
			return d
		},
	}
	for name, f := range bad {
		if _, err := oracle.CheckAST(f(), src, ext); err == nil {
			fmt.Printf("HARNESS-ERROR C05 validator accepts a malformed tree: %s\n", name)
			t.Fail()
		}
	}
}
