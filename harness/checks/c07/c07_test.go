// Package c07: a configured instance is safe for concurrent use (race
// detector + per-goroutine output equality on fresh shared instances).
package c07

import (
	"bytes"
	"fmt"
	"os"
	"os/exec"
	"path/filepath"
	"runtime"
	"strconv"
	"strings"
	"sync"
	"sync/atomic"
	"testing"

	"github.com/yuin/goldmark"
	"github.com/yuin/goldmark/ast"
	"github.com/yuin/goldmark/parser"
	"github.com/yuin/goldmark/text"
	"github.com/yuin/goldmark/util"
	"pgregory.net/rapid"

	"verif/gen"
	"verif/kit"
)

func TestMain(m *testing.M) {
	kit.Register("workload", workloadOracle)
	kit.Describe("case = (configuration, pool of documents covering every block/inline/extension kind, N in 2..16 goroutines each with 1..6 actions (Convert / Parse / Parse+Render of an own tree), GOMAXPROCS in {1,2,4,16}, yield points injected through the destination writer and a no-op probe inline parser / AST transformer calling runtime.Gosched); all goroutines start behind a barrier on a FRESH shared Markdown value so that first-use initialisation races with itself, or (one case in three) on an instance that first converted some of the documents sequentially - documents include long repeated ones that cross buffer-size thresholds; the package is built with -race and GORACE=halt_on_error, so any report stops the shard and the running workload becomes the replay; in addition every goroutine's output must equal the sequential canonical output; first use of process-wide tables is covered by re-executing the test binary for single workloads. non-trivial = at least two goroutines were inside goldmark at the same time on an instance first used in this case; distinct by hash of the case",
		"the race detector flags unsynchronised conflicting accesses on executed paths irrespective of timing: the generator's job is path coverage", "concurrent rendering of one tree by several goroutines is not part of the statement")
	kit.Main(m, "C07")
}

type yieldWriter struct {
	buf   bytes.Buffer
	every int
	n     int
}

func (w *yieldWriter) Write(p []byte) (int, error) {
	w.n++
	if w.every > 0 && w.n%w.every == 0 {
		runtime.Gosched()
	}
	return w.buf.Write(p)
}

type yieldInline struct {
	every int32
	n     atomic.Int32
}

func (y *yieldInline) Trigger() []byte { return []byte{'!'} }
func (y *yieldInline) Parse(parent ast.Node, block text.Reader, pc parser.Context) ast.Node {
	if y.every > 0 && y.n.Add(1)%y.every == 0 {
		runtime.Gosched()
	}
	return nil
}

type yieldTransformer struct{}

func (yieldTransformer) Transform(node *ast.Document, reader text.Reader, pc parser.Context) {
	runtime.Gosched()
}

var maxInFlight int32

func workloadOracle(c *kit.Case) error {
	cfg := gen.ParseConfig(c.Config)
	nd := int(c.Ints["ndocs"])
	docs := make([][]byte, nd)
	for i := range docs {
		docs[i] = c.Bytes["d"+strconv.Itoa(i)]
	}
	yieldEvery := int(c.Ints["yield"])
	mk := func() goldmark.Markdown {
		md := cfg.Fresh()
		if yieldEvery > 0 {
			// the probes are harness-owned and internally synchronised
			md.Parser().AddOptions(parser.WithInlineParsers(util.Prioritized(&yieldInline{every: int32(yieldEvery)}, 50)),
				parser.WithASTTransformers(util.Prioritized(yieldTransformer{}, 5)))
		}
		return md
	}
	plans := strings.Split(c.Strs["plan"], ";")
	if p := int(c.Ints["procs"]); p > 0 {
		defer runtime.GOMAXPROCS(runtime.GOMAXPROCS(p))
	}
	shared := mk() // fresh: first use happens concurrently below, unless the case asks for a history
	for _, act := range strings.Split(c.Strs["warm"], ",") {
		// sequential history on the shared instance (e.g. one long document): buffers an earlier call grew
		// and the instance kept must not be shared by the concurrent calls that follow
		if len(act) < 2 {
			continue
		}
		if i, err := strconv.Atoi(act[1:]); err == nil && i >= 0 && i < nd {
			var sink bytes.Buffer
			_ = shared.Convert(docs[i], &sink)
		}
	}
	var wg sync.WaitGroup
	start := make(chan struct{})
	errs := make([]error, len(plans))
	type result struct {
		doc int
		act string
		out []byte
	}
	outs := make([][]result, len(plans))
	var inFlight, maxSeen atomic.Int32
	for g, plan := range plans {
		wg.Add(1)
		go func(g int, plan string) {
			defer wg.Done()
			<-start
			for _, act := range strings.Split(plan, ",") {
				if len(act) < 2 {
					continue
				}
				i, _ := strconv.Atoi(act[1:])
				if i < 0 || i >= nd {
					continue
				}
				n := inFlight.Add(1)
				for {
					m := maxSeen.Load()
					if n <= m || maxSeen.CompareAndSwap(m, n) {
						break
					}
				}
				w := &yieldWriter{every: yieldEvery}
				var err error
				switch act[0] {
				case 'c':
					err = shared.Convert(docs[i], w)
				case 'p':
					doc := shared.Parser().Parse(text.NewReader(docs[i]))
					err = shared.Renderer().Render(w, docs[i], doc)
				case 'P': // parse only, then render own tree twice sequentially inside this goroutine
					doc := shared.Parser().Parse(text.NewReader(docs[i]))
					var tmp yieldWriter
					_ = shared.Renderer().Render(&tmp, docs[i], doc)
					err = shared.Renderer().Render(w, docs[i], doc)
				default:
					inFlight.Add(-1)
					continue
				}
				inFlight.Add(-1)
				if err != nil {
					errs[g] = kit.Violf("error", "goroutine %d action %s: %v", g, act, err)
					return
				}
				outs[g] = append(outs[g], result{i, act, w.buf.Bytes()})
			}
		}(g, plan)
	}
	close(start)
	wg.Wait()
	maxInFlight = maxSeen.Load()
	for _, e := range errs {
		if e != nil {
			return e
		}
	}
	// canonical outputs are computed sequentially on another instance AFTER the
	// concurrent phase, so that process-wide lazy tables are first used concurrently
	canon := make([][]byte, nd)
	seq := mk()
	for i, d := range docs {
		var b bytes.Buffer
		if err := seq.Convert(d, &b); err != nil {
			return kit.Violf("convert-error", "%v", err)
		}
		canon[i] = b.Bytes()
	}
	for g, rs := range outs {
		for _, r := range rs {
			if !bytes.Equal(r.out, canon[r.doc]) {
				return kit.Violf("concurrent-output-differs", "goroutine %d action %s on document %q:\n got        %q\n sequential %q", g, r.act, docs[r.doc], r.out, canon[r.doc])
			}
		}
	}
	return nil
}

// coverage pool: inputs that together reach every parser and renderer path
var coverDocs = []string{
	"# h\n\npara *e* **s** `c` [l](u \"t\") ![i](u) <a@b.c> <http://x.y> <b>raw</b> &amp; &#65; \\* line  \nbreak\\\nend\n",
	"> quote\n> - item\n>   1. nested\n\n    indented code\n\n```go\nfenced\n```\n\n***\n\nsetext\n===\n\n<div>\nhtml\n</div>\n\n[ref]: /u 't'\n\n[ref] [Ref][] [x][ref]\n",
	"|a|b|\n|:-|-:|\n|c|d\\|e|\n\n~~strike~~ www.example.com http://a.bc a@b.cd\n\n- [ ] todo\n- [x] done\n",
	"term\n: definition\n\nnote[^1] and[^1] again[^x]\n\n[^1]: foot\n\n    more\n\n[^x]: other\n",
	"\"quoted\" 'single' -- --- ... <<a>> it's\n\n# Title {#id .cls k=v}\n\n# Title\n\n## Title\n",
	"日本\n語 text\\ with escaped space\nａｂ\nｃ\n",
	"&ouml; &ClockwiseContourIntegral; &nosuch; [a](</my url> 'q') ![b][ref]\n\n[ref]: <u>\n",
	"<!-- c -->\n\n<?php ?>\n\n<![CDATA[x]]>\n\n<script>\nx\n</script>\n\ntext <!-- i --> <?p?> <!D> <![CDATA[y]]>\n",
	"1. a\n\n   b\n2. c\n   - d\n\n     e\n* * *\n+ f\n",
	"! bang ! ![ ]( ) !! a!b\n",
	// state that a shared or pooled object could carry from one call into a concurrent one: an unclosed typographic
	// quote / a lone closing quote, attribute values that need unescaping or number formatting, multi-line code spans
	"\"foo 'bar\n",
	"foo\" bar' baz\n",
	"# t {title=\"say \\\"hi\\\" to everybody\" data-n=12}\n\n## u {#u .c hidden=true}\n",
	"# v {title=\"C:\\\\temp\\\\new folder (2)\" tabindex=3}\n",
	"> `foo\n> bar` x\n\n- `a\r\n  b`\n",
	// per-line flags of the block parsers: empty list items followed by blank lines, fences with info inside items, setext candidates
	"- a\n-\n\n  b\n- \n\n- y\n\n1.\n\n   z\n* \n\ntext\n",
	"-\n\n-\n\n  ```x\n  c\n  ```\n-\n\nt\n===\n",
}

func TestKnown(t *testing.T)  { kit.RunKnown(t) }
func TestReplay(t *testing.T) { kit.RunReplay(t) }

func drawWorkload(t *rapid.T) *kit.Case {
	cfg := gen.DrawConfig(t, gen.ConfigOpts{})
	if rapid.Bool().Draw(t, "allext") {
		cfg = gen.Config{GFM: true, DefList: true, Footnote: true, Typo: true, CJK: 1, AutoID: true, Attr: true, Unsafe: rapid.Bool().Draw(t, "unsafe"), XHTML: rapid.Bool().Draw(t, "xhtml"), FnPrefix: rapid.IntRange(0, 5).Draw(t, "fnp")}
	}
	c := kit.NewCase("workload", cfg.String())
	nd := rapid.IntRange(2, 6).Draw(t, "ndocs")
	for i := 0; i < nd; i++ {
		var d []byte
		switch rapid.IntRange(0, 4).Draw(t, "dk") {
		case 4:
			if rapid.Bool().Draw(t, "long") {
				d = gen.LongDoc(t, gen.Any, "long") // size thresholds (more than 128 lines x nesting levels)
			} else {
				d = []byte(strings.Repeat(rapid.SampledFrom([]string{"- a\n", "- a\n\n", "> q\n", "line\n", "1. x\n   y\n", "|a|b|\n"}).Draw(t, "unit"), rapid.IntRange(130, 400).Draw(t, "rep")))
			}
		case 0:
			d = gen.Soup(t, gen.Any, 20, "soup")
		case 1:
			d = gen.SeedDoc(t, "seed")
		default:
			d = []byte(rapid.SampledFrom(coverDocs).Draw(t, "cover"))
		}
		c.B("d"+strconv.Itoa(i), d)
	}
	c.I("ndocs", int64(nd))
	ng := rapid.IntRange(2, 16).Draw(t, "goroutines")
	var plans []string
	for g := 0; g < ng; g++ {
		na := rapid.IntRange(1, 6).Draw(t, "nacts")
		var acts []string
		for a := 0; a < na; a++ {
			acts = append(acts, rapid.SampledFrom([]string{"c", "c", "p", "P"}).Draw(t, "act")+strconv.Itoa(rapid.IntRange(0, nd-1).Draw(t, "doc")))
		}
		plans = append(plans, strings.Join(acts, ","))
	}
	c.S("plan", strings.Join(plans, ";"))
	if rapid.IntRange(0, 2).Draw(t, "warm") == 0 {
		var w []string
		for k, n := 0, rapid.IntRange(1, 3).Draw(t, "nwarm"); k < n; k++ {
			w = append(w, "c"+strconv.Itoa(rapid.IntRange(0, nd-1).Draw(t, "wdoc")))
		}
		c.S("warm", strings.Join(w, ","))
	}
	c.I("procs", int64(rapid.SampledFrom([]int{1, 2, 4, 16}).Draw(t, "procs")))
	c.I("yield", int64(rapid.SampledFrom([]int{0, 1, 3, 7}).Draw(t, "yield")))
	return c
}

func TestWorkloads(t *testing.T) {
	kit.Rapid(t, "workloads", 1500, 72000, func(t *rapid.T) {
		c := drawWorkload(t)
		maxInFlight = 0
		if kit.Check(t, c) {
			kit.R.Class("workloads")
			kit.R.Class("procs:" + strconv.Itoa(int(c.Ints["procs"])))
			if maxInFlight >= 2 {
				kit.R.NonTrivial(c)
				kit.R.Class("overlapping")
			}
		}
	})
}

// TestFirstUse re-executes this binary for single workloads so that
// process-wide lazy tables (HTML5 entities) are first used concurrently.
func TestFirstUse(t *testing.T) {
	if os.Getenv("VERIF_CHILD_CASE") != "" {
		return
	}
	n := kit.Pick(8, 240)
	n = (n + kit.NShards() - 1) / kit.NShards()
	dir := filepath.Join(kit.VerifDir(), ".build", "out", "c07-children")
	_ = os.MkdirAll(dir, 0o755)
	for i := 0; i < n; i++ {
		cfg := gen.Representative[(i+kit.Shard())%len(gen.Representative)]
		c := kit.NewCase("workload", cfg.String())
		c.B("d0", []byte(coverDocs[6])).B("d1", []byte(coverDocs[0])).B("d2", []byte(coverDocs[(i+2)%len(coverDocs)])).I("ndocs", 3)
		c.S("plan", "c0,c1;c0,c2;p0;c1,c0;P0;c2;c0;c0").I("procs", int64([]int{2, 4, 16}[i%3])).I("yield", int64(i%2))
		path := filepath.Join(dir, fmt.Sprintf("child-%d-%d.json", kit.Shard(), i))
		data, _ := jsonMarshal(c)
		_ = os.WriteFile(path, data, 0o644)
		cmd := exec.Command(os.Args[0], "-test.run", "^TestChild$", "-test.count=1")
		cmd.Env = append(os.Environ(), "VERIF_CHILD_CASE="+path, "VERIF_OUT=", "VERIF_SAVE_CURRENT=")
		out, err := cmd.CombinedOutput()
		kit.R.Eval(1)
		if err != nil {
			if bytes.Contains(out, []byte("DATA RACE")) || bytes.Contains(out, []byte("CHILD-VIOLATION")) {
				msg := string(out)
				if len(msg) > 4000 {
					msg = msg[:4000]
				}
				p := kit.WriteReplay(c, kit.Violf("first-use", "fresh process, concurrent first use:\n%s", msg))
				t.Fatalf("VERIF-VIOLATION property=C07 replay=%s", p)
			}
			fmt.Printf("HARNESS-ERROR C07 child process failed: %v\n%s\n", err, out)
			t.FailNow()
		}
		kit.R.Class("fresh-process-first-use")
		kit.R.NonTrivial(c)
		_ = os.Remove(path)
	}
}

func TestChild(t *testing.T) {
	path := os.Getenv("VERIF_CHILD_CASE")
	if path == "" {
		t.Skip()
	}
	c, err := kit.LoadCase(path)
	if err != nil {
		t.Fatal(err)
	}
	if err := kit.Exec(c); err != nil {
		fmt.Printf("CHILD-VIOLATION %v\n", err)
		t.Fail()
	}
}

// TestSelfRaceBuild makes sure the binary was really built with the race detector.
func TestSelfRaceBuild(t *testing.T) {
	if !raceEnabled {
		fmt.Println("HARNESS-ERROR C07 test binary was not built with -race")
		t.Fail()
	}
}
