package c07

import (
	"encoding/json"

	"verif/kit"
)

func jsonMarshal(c *kit.Case) ([]byte, error) { return json.Marshal(c) }
