//go:build race

package c07

const raceEnabled = true
