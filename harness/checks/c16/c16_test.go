// Package c16: footnote numbering and cross-links are consistent.
package c16

import (
	"bytes"
	"fmt"
	"regexp"
	"sort"
	"strconv"
	"strings"
	"testing"

	"github.com/yuin/goldmark"
	"github.com/yuin/goldmark/ast"
	"github.com/yuin/goldmark/extension"
	east "github.com/yuin/goldmark/extension/ast"
	"github.com/yuin/goldmark/text"
	"pgregory.net/rapid"

	"verif/gen"
	"verif/kit"
	"verif/oracle"
)

func TestMain(m *testing.M) {
	kit.Register("footnotes", footnoteOracle)
	kit.SetClassifier(classify)
	kit.Describe("case = (safe configuration with the Footnote extension, optional id prefix, document from a footnote grammar: 0..6 definitions over a tiny label set (duplicates), bodies with paragraphs / lists / code / nested references / several paragraphs, references in paragraphs, emphasis, link text, image alt, headings, table cells, list items, block quotes, other footnotes' bodies, before and after the definition, undefined labels, never-referenced definitions with marker words, definitions inside containers, soup around); oracle on the tokenised output: items are numbered 1..m in order; every reference <sup id=fnrefK:N> holds a link to #fn:N whose text is N <= m; every back-link of item N targets an existing reference id fnrefK:N; references and back-links correspond one to one; all id attributes are distinct; marker words of never-referenced definitions do not appear. non-trivial = >= 2 rendered items and a footnote referenced more than once or from a non-paragraph position; distinct by hash of the case",
		"outputs are read with the strict HTML tokenizer; a case whose output it rejects is skipped here and left to C03", "known findings F10a/F10b are excluded by cause signatures computed on the AST")
	kit.Main(m, "C16")
}

func build(cfg gen.Config, prefix string) goldmark.Markdown {
	cfg.Footnote, cfg.FnPrefix = false, 0
	exts := cfg.Extensions()
	if prefix == "" {
		exts = append(exts, extension.Footnote)
	} else {
		exts = append(exts, extension.NewFootnote(extension.WithFootnoteIDPrefix(prefix)))
	}
	return goldmark.New(goldmark.WithExtensions(exts...), goldmark.WithParserOptions(cfg.ParserOptions()...), goldmark.WithRendererOptions(cfg.RendererOptions()...))
}

var mdCache = map[string]goldmark.Markdown{}

func instance(cfg gen.Config, prefix string) goldmark.Markdown {
	k := cfg.String() + "|" + prefix
	if m, ok := mdCache[k]; ok {
		return m
	}
	m := build(cfg, prefix)
	mdCache[k] = m
	return m
}

var refRe = regexp.MustCompile(`^fnref(\d*):(\d+)$`)

type stats struct {
	items, refs int
	multi       bool
	nonPara     bool
}

var last stats

type danglingErr struct {
	kit.Violation
	dangling [][2]int // (K, N)
}

func (d *danglingErr) Error() string { return d.Violation.Error() }

func checkOutput(out []byte, prefix string, markers []string) error {
	root, _, err := oracle.ParseStrict(out)
	if err != nil {
		return nil
	}
	last = stats{}
	// all ids distinct
	ids := map[string]bool{}
	for _, e := range root.All() {
		if v, ok := e.Attr("id"); ok {
			if ids[v] {
				return kit.Violf("duplicate-id", "id %q occurs twice in %q", v, out)
			}
			ids[v] = true
		}
	}
	// items
	var items []*oracle.Elem
	for _, d := range root.Find("div") {
		if cl, _ := d.Attr("class"); cl == "footnotes" {
			for _, ol := range d.Children {
				if ol.Name == "ol" {
					for _, li := range ol.Children {
						if li.Name == "li" {
							items = append(items, li)
						}
					}
				}
			}
		}
	}
	for i, li := range items {
		id, _ := li.Attr("id")
		want := fmt.Sprintf("%sfn:%d", prefix, i+1)
		if id != want {
			return kit.Violf("item-numbering", "footnote item %d has id %q, want %q, in %q", i+1, id, want, out)
		}
	}
	m := len(items)
	last.items = m
	// references
	refIDs := map[string]int{}
	perItem := map[int]int{}
	for _, sup := range root.Find("sup") {
		id, ok := sup.Attr("id")
		if !ok || !strings.HasPrefix(id, prefix) {
			continue
		}
		mm := refRe.FindStringSubmatch(id[len(prefix):])
		if mm == nil {
			continue
		}
		n, _ := strconv.Atoi(mm[2])
		var a *oracle.Elem
		for _, ch := range sup.Children {
			if ch.Name == "a" {
				a = ch
			}
		}
		if a == nil {
			return kit.Violf("reference-without-link", "reference %q holds no link in %q", id, out)
		}
		href, _ := a.Attr("href")
		if href != fmt.Sprintf("#%sfn:%d", prefix, n) {
			return kit.Violf("reference-link", "reference %q links to %q in %q", id, href, out)
		}
		if strings.TrimSpace(a.TextContent()) != strconv.Itoa(n) {
			return kit.Violf("reference-number", "reference %q shows %q in %q", id, a.TextContent(), out)
		}
		if n < 1 || n > m {
			return kit.Violf("reference-to-missing-item", "reference %q points to item %d but %d items are rendered, in %q", id, n, m, out)
		}
		refIDs[id] = n
		perItem[n]++
		last.refs++
		if sup.Parent == nil || sup.Parent.Name != "p" {
			last.nonPara = true
		}
	}
	for _, c := range perItem {
		if c > 1 {
			last.multi = true
		}
	}
	// back-links
	backs := map[string]int{}
	var dangling [][2]int
	var danglingIDs []string
	for i, li := range items {
		for _, a := range li.Find("a") {
			if cl, _ := a.Attr("class"); cl != "footnote-backref" {
				continue
			}
			href, _ := a.Attr("href")
			if !strings.HasPrefix(href, "#"+prefix) {
				return kit.Violf("backlink-target", "back-link %q of item %d in %q", href, i+1, out)
			}
			target := href[1:]
			mm := refRe.FindStringSubmatch(target[len(prefix):])
			if mm == nil {
				return kit.Violf("backlink-target", "back-link %q of item %d in %q", href, i+1, out)
			}
			n, _ := strconv.Atoi(mm[2])
			if n != i+1 {
				return kit.Violf("backlink-item", "back-link %q sits in item %d in %q", href, i+1, out)
			}
			backs[target]++
			if backs[target] > 1 {
				return kit.Violf("duplicate-backlink", "two back-links target %q in %q", target, out)
			}
			if _, ok := refIDs[target]; !ok {
				k := 0
				if mm[1] != "" {
					k, _ = strconv.Atoi(mm[1])
				}
				dangling = append(dangling, [2]int{k, n})
				danglingIDs = append(danglingIDs, target)
			}
		}
	}
	for id := range refIDs {
		if backs[id] != 1 {
			return kit.Violf("reference-without-backlink", "reference %q has no back-link in %q", id, out)
		}
	}
	for _, mk := range markers {
		if mk != "" && bytes.Contains(out, []byte(mk)) {
			return kit.Violf("unreferenced-definition-rendered", "marker %q of a never-referenced definition appears in %q", mk, out)
		}
	}
	if len(dangling) > 0 {
		sort.Strings(danglingIDs)
		d := &danglingErr{dangling: dangling}
		d.Code = "dangling-backlink"
		d.Msg = fmt.Sprintf("back-links %v point to references that are not in the output %q", danglingIDs, out)
		return d
	}
	return nil
}

func footnoteOracle(c *kit.Case) error {
	cfg := gen.ParseConfig(c.Config)
	cfg.Unsafe = false
	md := instance(cfg, c.Strs["prefix"])
	var b bytes.Buffer
	if err := md.Convert(c.Bytes["src"], &b); err != nil {
		return kit.Violf("convert-error", "%v", err)
	}
	var markers []string
	if s := c.Strs["markers"]; s != "" {
		markers = strings.Split(s, ",")
	}
	return checkOutput(b.Bytes(), c.Strs["prefix"], markers)
}

// classify: F10a = every dangling back-link belongs to a FootnoteLink node
// below an Image (its reference is only alt text); F10b = the counted
// reference is not in the final tree at all because it lived in the body of
// a footnote that was removed as unreferenced.
func classify(c *kit.Case, err error) string {
	d, ok := err.(*danglingErr)
	if !ok {
		return ""
	}
	cfg := gen.ParseConfig(c.Config)
	cfg.Unsafe = false
	md := instance(cfg, c.Strs["prefix"])
	src := c.Bytes["src"]
	doc := md.Parser().Parse(text.NewReader(src))
	type key struct{ k, n int }
	inImage := map[key]bool{}
	present := map[key]bool{}
	counted := map[int]int{}
	_ = ast.Walk(doc, func(n ast.Node, entering bool) (ast.WalkStatus, error) {
		if !entering {
			return ast.WalkContinue, nil
		}
		if l, ok := n.(*east.FootnoteLink); ok {
			k := key{l.RefIndex, l.Index}
			present[k] = true
			counted[l.Index] = l.RefCount
			for p := n.Parent(); p != nil; p = p.Parent() {
				if p.Kind() == ast.KindImage {
					inImage[k] = true
				}
			}
		}
		if b, ok := n.(*east.FootnoteBacklink); ok {
			counted[b.Index] = b.RefCount
		}
		return ast.WalkContinue, nil
	})
	reach := map[int]int{}
	for k := range present {
		reach[k.n]++
	}
	a, b := 0, 0
	for _, x := range d.dangling {
		k := key{x[0], x[1]}
		switch {
		case present[k] && inImage[k]:
			a++
		case !present[k] && counted[k.n] > reach[k.n]:
			b++
		default:
			return ""
		}
	}
	if a > 0 && kit.IsKnown("F10a") && (b == 0 || kit.IsKnown("F10b")) {
		return "F10a"
	}
	if b > 0 && kit.IsKnown("F10b") {
		return "F10b"
	}
	return ""
}

// ---- generator

var labels = []string{"1", "2", "x", "a b", "N", "n", "é"}

var fnSoup = &gen.Profile{Name: "fnsoup", NoHTML: true, ForbidBytes: "<", ForbidSubstr: []string{"```", "~~~"}, Extra: []string{"[^1]", "[^2]", "[^x]", "[^1]: ", "[^2]: ", "[^x]:", "[^1]:[^2]", "[^", "^]", "    ", "\n\n", "\n", "![", "](u)", "[", "]", "*", "> ", "- ", "|", "|-|\n", "`"}}

var preferred []string // labels that have a definition in the document being generated

func ref(t *rapid.T) string {
	if len(preferred) > 0 && rapid.IntRange(0, 4).Draw(t, "pref") != 0 {
		return "[^" + rapid.SampledFrom(preferred).Draw(t, "reflabelp") + "]"
	}
	return "[^" + rapid.SampledFrom(labels).Draw(t, "reflabel") + "]"
}

func refPlace(t *rapid.T) string {
	r := ref(t)
	place := rapid.IntRange(0, 13).Draw(t, "place")
	if (place == 5 || place == 12) && rapid.IntRange(0, 3).Draw(t, "keepimg") != 0 {
		place = 0 // references in image alt text (known finding F10a) are kept rare
	}
	switch place {
	case 0, 1, 2:
		return "text" + r + " more\n"
	case 3:
		return "*em" + r + "* **st" + r + "**\n"
	case 4:
		return "[link" + r + "](u)\n"
	case 5:
		return "![alt" + r + "](u)\n"
	case 6:
		return "# head" + r + "\n"
	case 7:
		return "|a" + r + "|b|\n|-|-|\n|c|d" + ref(t) + "|\n"
	case 8:
		return "- item" + r + "\n- two\n"
	case 9:
		return "> quote" + r + "\n"
	case 10:
		return r + r + " " + ref(t) + "\n"
	case 11:
		return "`code" + r + "`\n"
	case 12:
		return "![a](u) " + r + " ![b" + ref(t) + "](v)\n"
	default:
		return "head" + r + "\n===\n"
	}
}

func body(t *rapid.T, marker string) string {
	kind := rapid.IntRange(0, 8).Draw(t, "body")
	if (kind == 2 || kind == 3 || kind == 6 || kind == 7) && rapid.IntRange(0, 2).Draw(t, "keepnested") != 0 {
		kind = 1 // references nested in footnote bodies (known finding F10b) are kept rare
	}
	switch kind {
	case 0:
		return marker + " note\n"
	case 1:
		return marker + " first\n\n    second para\n"
	case 2:
		return marker + " see " + ref(t) + "\n"
	case 3:
		return marker + "\n\n    - l1\n    - l2" + ref(t) + "\n"
	case 4:
		return marker + "\n\n        code\n"
	case 5:
		return "\n    " + marker + " lazy\ncontinuation\n"
	case 6:
		return marker + " ![img" + ref(t) + "](u)\n"
	case 7:
		return marker + "\n\n    > q" + ref(t) + "\n\n    ```\n    fenced\n    ```\n"
	default:
		return marker + " *e* `c` [l](u)\n"
	}
}

func container(t *rapid.T, def string) string {
	switch rapid.IntRange(0, 7).Draw(t, "container") {
	case 0:
		return "> " + strings.ReplaceAll(strings.TrimSuffix(def, "\n"), "\n", "\n> ") + "\n"
	case 1:
		return "- " + strings.ReplaceAll(strings.TrimSuffix(def, "\n"), "\n", "\n  ") + "\n"
	}
	return def
}

func document(t *rapid.T) ([]byte, []string) {
	var parts []string
	var markers []string
	ndef := rapid.IntRange(0, 4).Draw(t, "ndef")
	preferred = nil
	perm := rapid.Permutation(labels).Draw(t, "labelperm")
	for i := 0; i < ndef; i++ {
		preferred = append(preferred, perm[i])
	}
	for i, lab := range preferred {
		parts = append(parts, container(t, "[^"+lab+"]: "+body(t, "D"+strconv.Itoa(i))))
		if rapid.IntRange(0, 5).Draw(t, "dup") == 0 {
			parts = append(parts, "[^"+lab+"]: duplicate "+body(t, "E"+strconv.Itoa(i)))
		}
	}
	nrefs := rapid.IntRange(0, 6).Draw(t, "nrefs")
	for i := 0; i < nrefs; i++ {
		parts = append(parts, refPlace(t))
	}
	nUnref := 0
	for i := rapid.IntRange(0, 2).Draw(t, "nextra"); i > 0; i-- {
		switch rapid.IntRange(0, 3).Draw(t, "extra") {
		case 0:
			nUnref++
			mk := "UNREFMARK" + strconv.Itoa(nUnref)
			markers = append(markers, mk)
			// a blank line in front: the definition must not become a lazy
			// continuation of whatever precedes it (soup cannot open a fence or HTML block)
			parts = append(parts, "\n[^never"+strconv.Itoa(nUnref)+"]: "+mk+" body\n")
		case 1:
			parts = append(parts, string(gen.Soup(t, fnSoup, 8, "soup"))+"\n")
		default:
			parts = append(parts, "plain paragraph\n")
		}
	}
	if len(parts) > 1 {
		parts = rapid.Permutation(parts).Draw(t, "order")
	}
	var sb strings.Builder
	for _, p := range parts {
		sb.WriteString(p)
		if rapid.IntRange(0, 3).Draw(t, "sep") != 0 {
			sb.WriteString("\n")
		}
	}
	return []byte(sb.String()), markers
}

func TestKnown(t *testing.T)  { kit.RunKnown(t) }
func TestReplay(t *testing.T) { kit.RunReplay(t) }

func TestFootnotes(t *testing.T) {
	kit.Rapid(t, "footnotes", 200000, 8000000, func(t *rapid.T) {
		cfg := gen.DrawConfig(t, gen.ConfigOpts{SafeOnly: true})
		cfg.Footnote = true
		if rapid.Bool().Draw(t, "table") && !cfg.GFM {
			cfg.Table = true
		}
		prefix := rapid.SampledFrom([]string{"", "", "p-", "doc1:"}).Draw(t, "prefix")
		src, markers := document(t)
		c := kit.NewCase("footnotes", cfg.String()).B("src", src).S("prefix", prefix).S("markers", strings.Join(markers, ","))
		last = stats{}
		if kit.Check(t, c) {
			kit.R.Class("documents")
			if last.items >= 2 && (last.multi || last.nonPara) {
				kit.R.NonTrivial(c)
				kit.R.Class("nontrivial")
			}
			if last.items > 0 {
				kit.R.Class("with-footnote-list")
			}
		}
	})
}
