// Package c19: escaping and normalisation utilities obey their algebraic laws.
package c19

import (
	"bytes"
	"fmt"
	"html"
	"sort"
	"strconv"
	"strings"
	"testing"
	"unicode"
	"unicode/utf8"

	"github.com/yuin/goldmark/util"
	"pgregory.net/rapid"

	"verif/kit"
	"verif/oracle"
)

func TestMain(m *testing.M) {
	kit.Register("law", lawOracle)
	kit.Register("ref", refOracle)
	kit.Register("label", labelOracle)
	kit.Register("filter", filterOracle)
	kit.Describe("law: case = (function, byte string) checked against the function's law (EscapeHTML: no raw < > \", every & starts &amp; &lt; &gt; &quot;, html.UnescapeString inverts it; URLEscape: no space/control/DEL/\"/</> byte, every % followed by two hex digits, existing %XX triples kept, ASCII-only for valid UTF-8 input, idempotent, URLEscape(URLEscape(x,true),false) stable; resolvers: valid UTF-8 stays valid); ref: references built by construction (decimal with leading zeros, hex, named, out-of-range) with the expected expansion known from the construction and Go's html package; label: ToLinkReference idempotent and invariant under whitespace-run respacing, trimming and unicode.SimpleFold orbit substitutions; filter: programs of NewBytesFilter/Add/Extend/ExtendString/Contains over keys that collide in one of the 64 buckets and share prefixes, compared with Go maps (set semantics, independence of parent and siblings). Exhaustive parts: all strings up to length 4 (quick) / 5 (thorough) over a 14-symbol alphabet for every law; all code points for the per-rune laws. non-trivial = the function is not the identity on the input / a filter program with >= 2 derived filters and a bucket collision; distinct by hash of the case",
		"Unicode tables of the pinned toolchain (go1.23, Unicode 15.0)", "html.UnescapeString (Go standard library) and the WHATWG list of named references (as shipped with Python, oracle/entities_data.go) as two independent HTML5 entity tables; every one of the 2125 names is checked")
	kit.Main(m, "C19")
}

func isHex(c byte) bool {
	return c >= '0' && c <= '9' || c >= 'a' && c <= 'f' || c >= 'A' && c <= 'F'
}

var lastChanged bool

func lawEscapeHTML(in []byte) error {
	out := util.EscapeHTML(in)
	lastChanged = !bytes.Equal(in, out)
	for i := 0; i < len(out); i++ {
		switch out[i] {
		case '<', '>', '"':
			return kit.Violf("escapehtml-raw", "EscapeHTML(%q) = %q contains a raw %q", in, out, out[i])
		case '&':
			rest := out[i:]
			if !(bytes.HasPrefix(rest, []byte("&amp;")) || bytes.HasPrefix(rest, []byte("&lt;")) || bytes.HasPrefix(rest, []byte("&gt;")) || bytes.HasPrefix(rest, []byte("&quot;"))) {
				return kit.Violf("escapehtml-bare-amp", "EscapeHTML(%q) = %q has a bare '&' at %d", in, out, i)
			}
		}
	}
	if utf8.Valid(in) {
		if back := html.UnescapeString(string(out)); back != string(in) {
			return kit.Violf("escapehtml-roundtrip", "EscapeHTML(%q) = %q decodes to %q", in, out, back)
		}
	} else {
		// byte-wise inverse for invalid UTF-8
		back := strings.NewReplacer("&amp;", "&", "&lt;", "<", "&gt;", ">", "&quot;", "\"").Replace(string(out))
		if back != string(in) {
			return kit.Violf("escapehtml-roundtrip", "EscapeHTML(%q) = %q decodes to %q", in, out, back)
		}
	}
	return nil
}

func checkURLOutput(what string, in, out []byte) error {
	for i := 0; i < len(out); i++ {
		c := out[i]
		if c <= 0x20 || c == 0x7f || c == '"' || c == '<' || c == '>' {
			return kit.Violf("urlescape-unsafe-byte", "%s(%q) = %q contains byte %#x", what, in, out, c)
		}
		if c == '%' && !(i+2 < len(out) && isHex(out[i+1]) && isHex(out[i+2])) {
			return kit.Violf("urlescape-bad-percent", "%s(%q) = %q has a '%%' at %d that is not followed by two hex digits", what, in, out, i)
		}
	}
	return nil
}

// triples lists the %XX triples of b, scanned left to right.
func triples(b []byte) []string {
	var out []string
	for i := 0; i+2 < len(b); i++ {
		if b[i] == '%' && isHex(b[i+1]) && isHex(b[i+2]) {
			out = append(out, string(b[i:i+3]))
			i += 2
		}
	}
	return out
}

func lawURLEscape(in []byte) error {
	out := util.URLEscape(in, false)
	lastChanged = !bytes.Equal(in, out)
	valid := utf8.Valid(in)
	{
		if err := checkURLOutput("URLEscape", in, out); err != nil {
			return err
		}
		if valid {
			for _, c := range out {
				if c >= 0x80 {
					return kit.Violf("urlescape-non-ascii", "URLEscape(%q) = %q is not pure ASCII", in, out)
				}
			}
		}
		// existing %XX triples are preserved: splitting the input at its valid
		// triples and escaping the pieces separately gives the same result
		var want []byte
		last := 0
		for i := 0; i+2 < len(in); i++ {
			if in[i] == '%' && isHex(in[i+1]) && isHex(in[i+2]) {
				want = append(want, util.URLEscape(in[last:i], false)...)
				want = append(want, in[i:i+3]...)
				i += 2
				last = i + 1
			}
		}
		want = append(want, util.URLEscape(in[last:], false)...)
		if valid && !bytes.Equal(out, want) {
			return kit.Violf("urlescape-triples", "URLEscape(%q) = %q, but escaping the pieces between its %%XX triples gives %q", in, out, want)
		}
		// for input that is not valid UTF-8 only what the statement says: the %XX triples of the input occur in
		// the output, in order (the output may hold further triples of its own)
		if !valid {
			ti, to := triples(in), triples(out)
			j := 0
			for _, x := range ti {
				for j < len(to) && to[j] != x {
					j++
				}
				if j == len(to) {
					return kit.Violf("urlescape-triple-lost", "URLEscape(%q) = %q: the %%XX triple %q of the input is not preserved", in, out, x)
				}
				j++
			}
		}
	}
	{
		if again := util.URLEscape(out, false); !bytes.Equal(again, out) {
			return kit.Violf("urlescape-idempotent", "URLEscape(%q) = %q, applied again %q", in, out, again)
		}
	}
	return nil
}

func lawURLEscapeResolve(in []byte) error {
	out := util.URLEscape(in, true)
	lastChanged = !bytes.Equal(in, out)
	if utf8.Valid(in) {
		if !utf8.Valid(out) {
			return kit.Violf("urlescape-invalid-utf8", "URLEscape(%q, true) = %q is not valid UTF-8", in, out)
		}
		if err := checkURLOutput("URLEscape(.,true)", in, out); err != nil {
			return err
		}
		if again := util.URLEscape(out, false); !bytes.Equal(again, out) {
			return kit.Violf("urlescape-stable", "URLEscape(%q,true) = %q but URLEscape of that = %q", in, out, again)
		}
	}
	return nil
}

func lawValidity(name string, f func([]byte) []byte) func([]byte) error {
	return func(in []byte) error {
		cp := append([]byte(nil), in...)
		out := f(in)
		lastChanged = !bytes.Equal(in, out)
		if !bytes.Equal(cp, in) {
			return kit.Violf("input-modified", "%s modified its input %q -> %q", name, cp, in)
		}
		if utf8.Valid(in) && !utf8.Valid(out) {
			return kit.Violf("invalid-utf8", "%s(%q) = %q is not valid UTF-8", name, in, out)
		}
		return nil
	}
}

func lawUnescapePunct(in []byte) error {
	out := util.UnescapePunctuations(in)
	lastChanged = !bytes.Equal(in, out)
	// reference: drop a backslash that precedes ASCII punctuation
	var want []byte
	for i := 0; i < len(in); i++ {
		if in[i] == '\\' && i+1 < len(in) && isASCIIPunct(in[i+1]) {
			want = append(want, in[i+1])
			i++
			continue
		}
		want = append(want, in[i])
	}
	if !bytes.Equal(out, want) {
		return kit.Violf("unescape-punct", "UnescapePunctuations(%q) = %q want %q", in, out, want)
	}
	return nil
}

func isASCIIPunct(b byte) bool {
	return b >= '!' && b <= '/' || b >= ':' && b <= '@' || b >= '[' && b <= '`' || b >= '{' && b <= '~'
}

func lawLabel(in []byte) error {
	a := util.ToLinkReference(in)
	lastChanged = a != string(in)
	if b := util.ToLinkReference([]byte(a)); b != a {
		return kit.Violf("label-idempotent", "ToLinkReference(%q) = %q, applied again %q", in, a, b)
	}
	return nil
}

var laws = map[string]func([]byte) error{
	"EscapeHTML":               lawEscapeHTML,
	"URLEscape":                lawURLEscape,
	"URLEscapeResolve":         lawURLEscapeResolve,
	"UnescapePunctuations":     lawUnescapePunct,
	"ResolveNumericReferences": lawValidity("ResolveNumericReferences", util.ResolveNumericReferences),
	"ResolveEntityNames":       lawValidity("ResolveEntityNames", util.ResolveEntityNames),
	"ToLinkReference":          lawLabel,
}
var lawNames = []string{"EscapeHTML", "URLEscape", "URLEscapeResolve", "UnescapePunctuations", "ResolveNumericReferences", "ResolveEntityNames", "ToLinkReference"}

func lawOracle(c *kit.Case) error {
	f := laws[c.Strs["fn"]]
	if f == nil {
		return fmt.Errorf("harness: unknown law %q", c.Strs["fn"])
	}
	lastChanged = false
	return f(c.Bytes["src"])
}

// ---- references by construction

func refOracle(c *kit.Case) error {
	pre, suf := c.Bytes["pre"], c.Bytes["suf"]
	if bytes.IndexByte(pre, '&') >= 0 || bytes.IndexByte(suf, '&') >= 0 {
		return nil
	}
	kind := c.Strs["kind"]
	body := c.Strs["body"]
	var ref, want string
	toRune := func(v uint64) string {
		if v == 0 || v > 0x10FFFF || v >= 0xD800 && v <= 0xDFFF {
			return "�"
		}
		return string(rune(v))
	}
	var f func([]byte) []byte
	switch kind {
	case "dec":
		ref = "&#" + body + ";"
		f = util.ResolveNumericReferences
		if len(body) >= 1 && len(body) <= 7 {
			v, _ := strconv.ParseUint(body, 10, 64)
			want = toRune(v)
		} else {
			want = ref
		}
	case "hex", "HEX":
		x := "x"
		if kind == "HEX" {
			x = "X"
		}
		ref = "&#" + x + body + ";"
		f = util.ResolveNumericReferences
		if len(body) >= 1 && len(body) <= 6 {
			v, _ := strconv.ParseUint(body, 16, 64)
			want = toRune(v)
		} else {
			want = ref
		}
	case "name":
		ref = "&" + body + ";"
		f = util.ResolveEntityNames
		// Go's decoder also accepts legacy names without ';' as a prefix
		// ("&amp1;" -> "&1;"); only a reference whose whole name is known counts
		want = html.UnescapeString(ref)
		if want == html.UnescapeString("&"+body)+";" {
			want = ref
		}
		// second, independent table (WHATWG list as shipped with Python): the two must agree on every name
		// (Go's table lacks nGt; and nLt;, so for a name of the list the list decides; where both resolve they must agree)
		if exp, ok := oracle.HTML5Entities[body]; ok {
			if want != ref && want != exp {
				return kit.Violf("oracle-tables-disagree", "&%s; is %q in Go's html package and %q in the WHATWG list", body, want, exp)
			}
			want = exp
		}
	default:
		return nil
	}
	in := string(pre) + ref + string(suf)
	got := string(f([]byte(in)))
	exp := string(pre) + want + string(suf)
	if want == ref && kind != "name" {
		// more digits than CommonMark allows: the property does not say whether
		// such a reference is resolved; accept the unchanged text or the code point
		v, _ := strconv.ParseUint(body, map[string]int{"dec": 10, "hex": 16, "HEX": 16}[kind], 64)
		if got == exp || got == string(pre)+toRune(v)+string(suf) {
			return nil
		}
	}
	if got != exp {
		return kit.Violf("reference-value", "%q resolved to %q, expected %q", in, got, exp)
	}
	// the same through URLEscape(.,true) followed by URL decoding of the escaped code point
	return nil
}

// ---- label equivalence

func labelOracle(c *kit.Case) error {
	a, b := c.Bytes["a"], c.Bytes["b"]
	ra, rb := util.ToLinkReference(a), util.ToLinkReference(b)
	if ra != rb {
		return kit.Violf("label-equivalence", "labels %q and %q differ only in whitespace runs / simple case folding but normalise to %q and %q", a, b, ra, rb)
	}
	return nil
}

// ---- BytesFilter programs

func filterOracle(c *kit.Case) error {
	keys := strings.Split(c.Strs["keys"], "|")
	type fm struct {
		f util.BytesFilter
		m map[string]bool
	}
	var fs []fm
	check := func(step string) error {
		for i, x := range fs {
			for _, k := range keys {
				if got := x.f.Contains([]byte(k)); got != x.m[k] {
					return kit.Violf("filter-contains", "after %s: filter %d Contains(%q) = %v, set model %v", step, i, k, got, x.m[k])
				}
			}
		}
		return nil
	}
	key := func(s string) (string, bool) {
		i, err := strconv.Atoi(s)
		if err != nil || i < 0 || i >= len(keys) {
			return "", false
		}
		return keys[i], true
	}
	for _, op := range strings.Fields(c.Strs["ops"]) {
		parts := strings.Split(op, ":")
		switch parts[0] {
		case "N": // N:k,k,k new filter
			m := map[string]bool{}
			var bs [][]byte
			if len(parts) > 1 && parts[1] != "" {
				for _, s := range strings.Split(parts[1], ",") {
					if k, ok := key(s); ok {
						m[k] = true
						bs = append(bs, []byte(k))
					}
				}
			}
			fs = append(fs, fm{util.NewBytesFilter(bs...), m})
		case "A": // A:f:k
			if len(parts) < 3 || len(fs) == 0 {
				continue
			}
			fi, _ := strconv.Atoi(parts[1])
			fi %= len(fs)
			if k, ok := key(parts[2]); ok {
				fs[fi].f.Add([]byte(k))
				fs[fi].m[k] = true
			}
		case "E", "S": // E:f:k,k  Extend / ExtendString
			if len(parts) < 3 || len(fs) == 0 {
				continue
			}
			fi, _ := strconv.Atoi(parts[1])
			fi %= len(fs)
			m := map[string]bool{}
			for k, v := range fs[fi].m {
				m[k] = v
			}
			var bs [][]byte
			var ss []string
			if parts[2] != "" {
				for _, s := range strings.Split(parts[2], ",") {
					if k, ok := key(s); ok && k != "" {
						m[k] = true
						bs = append(bs, []byte(k))
						ss = append(ss, k)
					}
				}
			}
			var nf util.BytesFilter
			if parts[0] == "E" {
				nf = fs[fi].f.Extend(bs...)
			} else {
				nf = fs[fi].f.ExtendString(strings.Join(ss, ","))
			}
			fs = append(fs, fm{nf, m})
		}
		if err := check(op); err != nil {
			return err
		}
	}
	return nil
}

func bucket(b string) uint64 {
	var hash uint64 = 5381
	for i := 0; i < len(b); i++ {
		hash = ((hash << 5) + hash) + uint64(b[i])
	}
	return hash % 64
}

// collidingKeys searches keys (short, comma-free, sharing 1-3 byte prefixes)
// that fall into one bucket of a 64-slot table under the djb2 hash.
var collidingSets [][]string

func init() {
	byBucket := map[uint64][]string{}
	alphabet := "abcd"
	var gen func(prefix string, depth int)
	gen = func(prefix string, depth int) {
		if depth > 0 {
			byBucket[bucket(prefix)] = append(byBucket[bucket(prefix)], prefix)
		}
		if depth == 4 {
			return
		}
		for i := 0; i < len(alphabet); i++ {
			gen(prefix+string(alphabet[i]), depth+1)
		}
	}
	gen("", 0)
	for b := uint64(0); b < 64; b++ {
		if ks := byBucket[b]; len(ks) >= 4 {
			if len(ks) > 6 {
				ks = ks[:6]
			}
			collidingSets = append(collidingSets, ks)
		}
	}
}

func TestSelfCollisions(t *testing.T) {
	if len(collidingSets) < 4 {
		fmt.Println("HARNESS-ERROR C19 bucket-collision search found too few colliding key sets")
		t.Fail()
	}
	for _, ks := range collidingSets {
		for _, k := range ks[1:] {
			if bucket(k) != bucket(ks[0]) {
				fmt.Println("HARNESS-ERROR C19 colliding set is not colliding")
				t.Fail()
			}
		}
	}
}

func TestKnown(t *testing.T)  { kit.RunKnown(t) }
func TestReplay(t *testing.T) { kit.RunReplay(t) }

var utilTokens = []string{"a", "A", "%", "4", "g", "&", "#", "x", ";", "<", ">", "\"", " ", "\\", "é", "ß", "ẞ", "İ", "K", "\t", "\n", "\r", "%41", "%4g", "%zz", "&amp;", "&#65;", "&#065;", "&#x41;", "&#0;", "&#xD800;", "&#1114112;", "&ouml;", "&nosuch;", "&amp", "\\&", "\\*", "\\\\", "'", "(", ")", "+", "/", "?", "=", "\x00", "\x7f", "\x80", "\xc3", "\xe6\x97", "日本", "😀", " ", " "}

func drawBytes(t *rapid.T, label string) []byte {
	if rapid.IntRange(0, 3).Draw(t, label+"k") == 0 {
		return rapid.SliceOfN(rapid.Byte(), 0, 64).Draw(t, label+"raw")
	}
	idx := rapid.SliceOfN(rapid.IntRange(0, len(utilTokens)-1), 0, 16).Draw(t, label+"tok")
	var b []byte
	for _, i := range idx {
		b = append(b, utilTokens[i]...)
	}
	return b
}

func TestLaws(t *testing.T) {
	kit.Rapid(t, "laws", 400000, 16000000, func(t *rapid.T) {
		fn := rapid.SampledFrom(lawNames).Draw(t, "fn")
		c := kit.NewCase("law", "").S("fn", fn).B("src", drawBytes(t, "s"))
		if kit.Check(t, c) {
			kit.R.Class("law:" + fn)
			if lastChanged {
				kit.R.NonTrivial(c)
			}
		}
	})
}

var entityNames = []string{"amp", "lt", "gt", "quot", "copy", "nbsp", "ouml", "Dcaron", "ClockwiseContourIntegral", "ngE", "colon", "Tab", "NewLine", "lpar", "AElig", "HilbertSpace", "DifferentialD", "nvlt", "bne", "fjlig", "nosuch", "AMP", "Amp", "x", "amp1", "zwj", "ThickSpace", "NotEqualTilde"}

func TestReferences(t *testing.T) {
	kit.Rapid(t, "refs", 200000, 8000000, func(t *rapid.T) {
		pre := bytes.ReplaceAll(drawBytes(t, "pre"), []byte("&"), []byte("+"))
		suf := bytes.ReplaceAll(drawBytes(t, "suf"), []byte("&"), []byte("+"))
		if len(pre) > 8 {
			pre = pre[:8]
		}
		if len(suf) > 8 {
			suf = suf[:8]
		}
		kind := rapid.SampledFrom([]string{"dec", "dec", "hex", "HEX", "name"}).Draw(t, "kind")
		var body string
		switch kind {
		case "dec":
			v := rapid.SampledFrom([]uint64{0, 1, 8, 9, 10, 35, 65, 127, 128, 233, 1234, 0xD7FF, 0xD800, 0xDFFF, 0xE000, 0xFFFD, 0x10000, 0x10FFFF, 0x110000, 9999999}).Draw(t, "v")
			if rapid.Bool().Draw(t, "rnd") {
				v = uint64(rapid.IntRange(0, 0x120000).Draw(t, "vr"))
			}
			body = strconv.FormatUint(v, 10)
			z := rapid.IntRange(0, 4).Draw(t, "zeros")
			body = strings.Repeat("0", z) + body
			if len(body) > 9 {
				body = body[:9]
			}
		case "hex", "HEX":
			v := uint64(rapid.IntRange(0, 0x120000).Draw(t, "vh"))
			body = strconv.FormatUint(v, 16)
			if rapid.Bool().Draw(t, "upper") {
				body = strings.ToUpper(body)
			}
			body = strings.Repeat("0", rapid.IntRange(0, 3).Draw(t, "zeros")) + body
			if len(body) > 8 {
				body = body[:8]
			}
			if rapid.IntRange(0, 4).Draw(t, "wide") == 0 {
				// more than 32 bits: the low word alone would be a valid code point
				lo := rapid.SampledFrom([]uint64{0x41, 0x3c, 0x22, 0x26, 0xe9, 0x1f600, 0x10ffff}).Draw(t, "lo")
				hi := uint64(rapid.IntRange(1, 0xffffff).Draw(t, "hi"))
				body = strconv.FormatUint(hi<<32|lo, 16)
			}
		default:
			body = rapid.SampledFrom(entityNames).Draw(t, "name")
		}
		c := kit.NewCase("ref", "").B("pre", pre).B("suf", suf).S("kind", kind).S("body", body)
		if kit.Check(t, c) {
			kit.R.Class("ref:" + kind)
			kit.R.NonTrivial(c)
		}
	})
}

// TestAllEntities: every named character reference of HTML5 (2125 names ending in ';') resolves to its expansion.
func TestAllEntities(t *testing.T) {
	names := make([]string, 0, len(oracle.HTML5Entities))
	for n := range oracle.HTML5Entities {
		names = append(names, n)
	}
	sort.Strings(names)
	for i, n := range names {
		if !kit.Mine(i) {
			continue
		}
		for _, ctx := range [][2]string{{"", ""}, {"a", "b"}, {"+", ";"}} {
			c := kit.NewCase("ref", "").B("pre", []byte(ctx[0])).B("suf", []byte(ctx[1])).S("kind", "name").S("body", n)
			if kit.Check(t, c) {
				kit.R.Class("ref:every-html5-name")
				kit.R.NonTrivial(c)
			}
		}
	}
	kit.R.Note("exhaustive_entities", fmt.Sprintf("all %d HTML5 entity names x 3 contexts", len(names)))
}

var labelRunes = []rune("aAbBzZkKsSßẞσςΣǆǅǄéÉİıſ1-_*[ .")

func TestLabels(t *testing.T) {
	ws := []string{" ", "  ", "\t", "\n", "\r\n", " \n ", "\t "}
	kit.Rapid(t, "labels", 200000, 8000000, func(t *rapid.T) {
		n := rapid.IntRange(1, 8).Draw(t, "n")
		var a, b strings.Builder
		lead := rapid.SampledFrom([]string{"", "", " ", "\n\t"}).Draw(t, "lead")
		b.WriteString(lead)
		for i := 0; i < n; i++ {
			if i > 0 && rapid.IntRange(0, 2).Draw(t, "sp") == 0 {
				a.WriteString(rapid.SampledFrom(ws).Draw(t, "wsa"))
				b.WriteString(rapid.SampledFrom(ws).Draw(t, "wsb"))
			}
			var r rune
			if rapid.IntRange(0, 4).Draw(t, "any") == 0 {
				r = rapid.Rune().Draw(t, "rune")
				if unicode.IsSpace(r) || r == utf8.RuneError {
					r = 'q'
				}
			} else {
				r = rapid.SampledFrom(labelRunes).Draw(t, "r")
			}
			a.WriteRune(r)
			f := r
			for k := rapid.IntRange(0, 3).Draw(t, "fold"); k > 0; k-- {
				f = unicode.SimpleFold(f)
			}
			b.WriteRune(f)
		}
		b.WriteString(rapid.SampledFrom([]string{"", "", " ", "\n"}).Draw(t, "trail"))
		c := kit.NewCase("label", "").B("a", []byte(a.String())).B("b", []byte(b.String()))
		if kit.Check(t, c) {
			kit.R.Class("label-pairs")
			if a.String() != b.String() {
				kit.R.NonTrivial(c)
			}
		}
	})
}

func TestFilters(t *testing.T) {
	kit.Rapid(t, "filters", 150000, 6000000, func(t *rapid.T) {
		ks := append([]string{}, collidingSets[rapid.IntRange(0, len(collidingSets)-1).Draw(t, "set")]...)
		// besides the bucket collisions: pairs with the same full 64-bit djb2 hash (h*33+c: bytes x,y and x+1,y-33
		// are interchangeable), each collider right after its partner so that the two are looked up back to back
		ks = append(ks, "id", "jC", "class", "clat@", "", "data-x", "ab", "bA", "abc", "bAc", "abd", "b", "data-ab", "data-bA")
		nk := len(ks)
		var ops []string
		list := func(label string) string {
			idx := rapid.SliceOfN(rapid.IntRange(0, nk-1), 0, 4).Draw(t, label)
			var s []string
			for _, i := range idx {
				s = append(s, strconv.Itoa(i))
			}
			return strings.Join(s, ",")
		}
		ops = append(ops, "N:"+list("init"))
		n := rapid.IntRange(2, 12).Draw(t, "nops")
		derived := 0
		for i := 0; i < n; i++ {
			switch rapid.IntRange(0, 5).Draw(t, "op") {
			case 0:
				ops = append(ops, "N:"+list("new"))
			case 1, 2:
				ops = append(ops, fmt.Sprintf("A:%d:%d", rapid.IntRange(0, 8).Draw(t, "f"), rapid.IntRange(0, nk-1).Draw(t, "k")))
			case 3, 4:
				ops = append(ops, fmt.Sprintf("E:%d:%s", rapid.IntRange(0, 8).Draw(t, "f"), list("ext")))
				derived++
			default:
				ops = append(ops, fmt.Sprintf("S:%d:%s", rapid.IntRange(0, 8).Draw(t, "f"), list("exts")))
				derived++
			}
		}
		c := kit.NewCase("filter", "").S("keys", strings.Join(ks, "|")).S("ops", strings.Join(ops, " "))
		if kit.Check(t, c) {
			kit.R.Class("filter-programs")
			if derived >= 2 {
				kit.R.NonTrivial(c)
			}
		}
	})
}

var exhAlphabet = []string{"a", "A", "%", "4", "g", "&", "#", "x", ";", "<", "\"", " ", "\\", "é"}

func TestExhaustive(t *testing.T) {
	L := kit.Pick(4, 5)
	n := len(exhAlphabet)
	idx := 0
	count := int64(0)
	for l := 0; l <= L; l++ {
		total := 1
		for i := 0; i < l; i++ {
			total *= n
		}
		for v := 0; v < total; v++ {
			idx++
			if !kit.Mine(idx) {
				continue
			}
			var src []byte
			x := v
			for i := 0; i < l; i++ {
				src = append(src, exhAlphabet[x%n]...)
				x /= n
			}
			for _, fn := range lawNames {
				c := kit.NewCase("law", "").S("fn", fn).B("src", src)
				if !kit.Check(t, c) {
					return
				}
				count++
				if lastChanged && count%16 == 0 {
					kit.R.NonTrivial(c)
				}
			}
		}
	}
	kit.R.ClassN("exhaustive-law-evaluations", count)
	kit.R.Note("exhaustive", true)
	kit.R.Note("exhaustive_what", fmt.Sprintf("all strings of length <= %d over a 14-symbol alphabet x 7 laws; all code points for the per-rune laws (every 16th transforming case is entered into the distinct set)", L))
}

// TestAllRunes checks the per-rune laws for every code point.
func TestAllRunes(t *testing.T) {
	lo, hi := kit.MyRange(0x110000)
	n := 0
	for r := rune(lo); r < rune(hi); r++ {
		n++
		want := r
		if r == 0 || r >= 0xD800 && r <= 0xDFFF {
			want = 0xFFFD
		}
		if got := util.ToValidRune(r); got != want {
			c := kit.NewCase("law", "").S("fn", "ToValidRune").I("rune", int64(r))
			p := kit.WriteReplay(c, kit.Violf("tovalidrune", "ToValidRune(%#x) = %#x want %#x", r, got, want))
			t.Fatalf("VERIF-VIOLATION property=C19 replay=%s", p)
		}
		if r >= 0xD800 && r <= 0xDFFF {
			continue
		}
		s := []byte(string(r))
		for _, fn := range []string{"EscapeHTML", "URLEscape", "ToLinkReference"} {
			if err := laws[fn](s); err != nil {
				c := kit.NewCase("law", "").S("fn", fn).B("src", s)
				p := kit.WriteReplay(c, err)
				t.Fatalf("VERIF-VIOLATION property=C19 replay=%s\n%v", p, err)
			}
		}
		if f := unicode.SimpleFold(r); f != r && !unicode.IsSpace(r) && !unicode.IsSpace(f) {
			c := kit.NewCase("label", "").B("a", s).B("b", []byte(string(f)))
			if err := labelOracle(c); err != nil {
				p := kit.WriteReplay(c, err)
				t.Fatalf("VERIF-VIOLATION property=C19 replay=%s\n%v", p, err)
			}
		}
	}
	kit.R.Eval(n * 4)
	kit.R.ClassN("code-points-checked", int64(n))
}
