// Package c11: extensions are conservative — no trigger syntax, no change;
// GFM equals its four members.
package c11

import (
	"bytes"
	"testing"
	"unicode"

	"github.com/yuin/goldmark/ast"
	"github.com/yuin/goldmark/text"
	"pgregory.net/rapid"

	"verif/gen"
	"verif/kit"
)

func TestMain(m *testing.M) {
	kit.Register("conservative", conservativeOracle)
	kit.Register("gfm", gfmOracle)
	kit.SetClassifier(classify)
	kit.Describe("case = (extension E, base configuration X without E, document free of E's trigger set by construction); oracle Convert_X(d) == Convert_{X+E}(d); plus GFM vs {Linkify, Table, Strikethrough, TaskList} on unrestricted documents; non-trivial = the tree parsed under X has >= 2 blocks or >= 2 inline nodes; distinct by hash of (E, X, d)",
		"trigger sets as listed in the property statement", "CJK documents are pure ASCII without backslash-space")
	kit.Main(m, "C11")
}

type extCase struct {
	name    string
	profile *gen.Profile
	with    func(c gen.Config, variant int) gen.Config
	has     func(c gen.Config) bool
	strip   func(c gen.Config) gen.Config
	nvar    int
}

var exts = []extCase{
	{name: "strikethrough", profile: &gen.Profile{Name: "no~", ForbidBytes: "~"},
		with: func(c gen.Config, _ int) gen.Config { c.Strike = true; return c }, strip: func(c gen.Config) gen.Config { c.GFM, c.Strike = false, false; return c }, nvar: 1},
	{name: "table", profile: &gen.Profile{Name: "no-", ForbidBytes: "-"},
		with: func(c gen.Config, _ int) gen.Config { c.Table = true; return c }, strip: func(c gen.Config) gen.Config { c.GFM, c.Table, c.TableAlign = false, false, 0; return c }, nvar: 1},
	{name: "tasklist", profile: &gen.Profile{Name: "no[", ForbidBytes: "["},
		with: func(c gen.Config, _ int) gen.Config { c.Task = true; return c }, strip: func(c gen.Config) gen.Config { c.GFM, c.Task = false, false; return c }, nvar: 1},
	{name: "footnote", profile: &gen.Profile{Name: "no[^", ForbidSubstr: []string{"[^"}},
		with: func(c gen.Config, _ int) gen.Config { c.Footnote = true; return c }, strip: func(c gen.Config) gen.Config { c.Footnote = false; return c }, nvar: 1},
	{name: "definitionlist", profile: &gen.Profile{Name: "no:", ForbidBytes: ":"},
		with: func(c gen.Config, _ int) gen.Config { c.DefList = true; return c }, strip: func(c gen.Config) gen.Config { c.DefList = false; return c }, nvar: 1},
	{name: "typographer", profile: &gen.Profile{Name: "notypo", ForbidBytes: "'\"-.<>"},
		with: func(c gen.Config, _ int) gen.Config { c.Typo = true; return c }, strip: func(c gen.Config) gen.Config { c.Typo = false; return c }, nvar: 1},
	{name: "linkify", profile: &gen.Profile{Name: "nolinkify", ForbidBytes: ":@", ForbidSubstr: []string{"www."}},
		with: func(c gen.Config, _ int) gen.Config { c.Linkify = true; return c }, strip: func(c gen.Config) gen.Config { c.GFM, c.Linkify = false, false; return c }, nvar: 1},
	{name: "cjk", profile: &gen.Profile{Name: "ascii", ASCIIOnly: true, ForbidSubstr: []string{"\\ "}},
		with: func(c gen.Config, v int) gen.Config { c.CJK = 1 + v; return c }, strip: func(c gen.Config) gen.Config { c.CJK = 0; return c }, nvar: 5},
}

func conv(cfg gen.Config, src []byte) ([]byte, error) {
	var b bytes.Buffer
	err := cfg.MD().Convert(src, &b)
	return b.Bytes(), err
}

func conservativeOracle(c *kit.Case) error {
	base := gen.ParseConfig(c.Config)
	with := gen.ParseConfig(c.Strs["with"])
	src := c.Bytes["src"]
	r1, err := conv(base, src)
	if err != nil {
		return kit.Violf("convert-error", "%v", err)
	}
	r2, err := conv(with, src)
	if err != nil {
		return kit.Violf("convert-error", "%v", err)
	}
	if !bytes.Equal(r1, r2) {
		return kit.Violf("extension-changes-output", "extension %s\n without: %q\n with:    %q", c.Strs["ext"], r1, r2)
	}
	return nil
}

func gfmOracle(c *kit.Case) error {
	base := gen.ParseConfig(c.Config)
	g, m := base, base
	g.GFM = true
	m.Linkify, m.Table, m.Strike, m.Task = true, true, true, true
	src := c.Bytes["src"]
	r1, err := conv(g, src)
	if err != nil {
		return kit.Violf("convert-error", "%v", err)
	}
	r2, err := conv(m, src)
	if err != nil {
		return kit.Violf("convert-error", "%v", err)
	}
	if !bytes.Equal(r1, r2) {
		return kit.Violf("gfm-differs", "GFM: %q\n members: %q", r1, r2)
	}
	return nil
}

// classify implements the signature of known finding F17: CSS3Draft style,
// the outputs differ only by LFs missing next to an ASCII punctuation character.
func classify(c *kit.Case, err error) string {
	v, ok := err.(*kit.Violation)
	if !ok || v.Code != "extension-changes-output" || c.Strs["ext"] != "cjk" {
		return ""
	}
	with := gen.ParseConfig(c.Strs["with"])
	if with.CJK != 3 && with.CJK != 5 {
		return ""
	}
	base := gen.ParseConfig(c.Config)
	src := c.Bytes["src"]
	r1, _ := conv(base, src)
	r2, _ := conv(with, src)
	// r2 must be r1 with some LFs deleted ...
	deleted := 0
	i, j := 0, 0
	for i < len(r1) {
		if j < len(r2) && r1[i] == r2[j] {
			i++
			j++
			continue
		}
		if r1[i] == '\n' {
			i++
			deleted++
			continue
		}
		return ""
	}
	if j != len(r2) || deleted == 0 {
		return ""
	}
	// ... and every deleted break must be explained by the cause: a soft line
	// break whose neighbouring source character is ASCII punctuation.
	doc := with.MD().Parser().Parse(text.NewReader(src))
	explained := 0
	_ = ast.Walk(doc, func(n ast.Node, entering bool) (ast.WalkStatus, error) {
		if t, ok := n.(*ast.Text); ok && entering && t.SoftLineBreak() {
			v := t.Segment.Value(src)
			punct := len(v) > 0 && v[len(v)-1] < 0x80 && unicode.IsPunct(rune(v[len(v)-1]))
			if nt, ok := n.NextSibling().(*ast.Text); ok {
				nv := nt.Segment.Value(src)
				if len(nv) > 0 && nv[0] < 0x80 && unicode.IsPunct(rune(nv[0])) {
					punct = true
				}
			}
			if punct {
				explained++
			}
		}
		return ast.WalkContinue, nil
	})
	if deleted > explained {
		return ""
	}
	return "F17"
}

func nontrivial(cfg gen.Config, src []byte) bool {
	doc := cfg.MD().Parser().Parse(text.NewReader(src))
	blocks, inl := 0, 0
	_ = ast.Walk(doc, func(n ast.Node, entering bool) (ast.WalkStatus, error) {
		if entering {
			switch n.Type() {
			case ast.TypeBlock:
				blocks++
			case ast.TypeInline:
				inl++
			}
		}
		return ast.WalkContinue, nil
	})
	return blocks >= 2 || inl >= 2
}

func TestKnown(t *testing.T)  { kit.RunKnown(t) }
func TestReplay(t *testing.T) { kit.RunReplay(t) }

func TestConservative(t *testing.T) {
	kit.Rapid(t, "conservative", 600000, 32000000, func(t *rapid.T) {
		e := exts[rapid.IntRange(0, len(exts)-1).Draw(t, "ext")]
		base := e.strip(gen.DrawConfig(t, gen.ConfigOpts{}))
		if e.name == "table" || e.name == "linkify" || e.name == "strikethrough" || e.name == "tasklist" {
			// GFM was stripped; re-add the other members at random so that combinations are explored
			bits := rapid.IntRange(0, 15).Draw(t, "members")
			base.Linkify, base.Table, base.Strike, base.Task = bits&1 != 0, bits&2 != 0, bits&4 != 0, bits&8 != 0
			base = e.strip(base)
		}
		if e.name != "cjk" && (base.CJK == 3 || base.CJK == 5) {
			// known finding F17 (CSS3Draft style and ASCII punctuation) would
			// show through every other extension's comparison: the base
			// configurations use the Simple style / escaped space instead
			base.CJK--
			kit.R.Class("base-css3draft-replaced")
		}
		variant := 0
		if e.nvar > 1 {
			variant = rapid.IntRange(0, e.nvar-1).Draw(t, "variant")
		}
		with := e.with(base, variant)
		src, class := gen.Doc(t, e.profile, kit.Pick(30, 80), "d")
		c := kit.NewCase("conservative", base.String()).B("src", src).S("with", with.String()).S("ext", e.name)
		if kit.Check(t, c) {
			kit.R.Class("ext:"+e.name, "gen:"+class)
			if nontrivial(base, src) {
				kit.R.NonTrivial(c)
				kit.R.Class("nontrivial:" + e.name)
			}
		}
	})
}

func TestGFM(t *testing.T) {
	kit.Rapid(t, "gfm", 100000, 6000000, func(t *rapid.T) {
		base := gen.DrawConfig(t, gen.ConfigOpts{})
		base.GFM, base.Linkify, base.Table, base.Strike, base.Task, base.TableAlign = false, false, false, false, false, 0
		src, class := gen.Doc(t, gen.Any, kit.Pick(30, 80), "d")
		c := kit.NewCase("gfm", base.String()).B("src", src)
		if kit.Check(t, c) {
			kit.R.Class("ext:gfm", "gen:"+class)
			if nontrivial(base, src) {
				kit.R.NonTrivial(c)
				kit.R.Class("nontrivial:gfm")
			}
		}
	})
}
