package c03

import (
	"fmt"
	"testing"

	"verif/gen"
	"verif/oracle"
)

// TestSelfOracle: fixed vectors for the strict tokenizer / vocabulary / URL
// normaliser. A failure here is a harness problem (exit 2), never a violation.
func TestSelfOracle(t *testing.T) {
	safe := gen.Config{GFM: true, Footnote: true, DefList: true}
	good := []string{
		"<p>a &amp; b &lt; c &gt; d &quot;e&quot; '</p>\n",
		"<p><a href=\"u\" title=\"t &quot;q&quot;\">x</a> <img src=\"s\" alt=\"a\"> <br>\n<em>e</em><strong>s</strong><code>c</code></p>\n<hr>\n",
		"<!-- raw HTML omitted -->\n<p>x<!-- raw HTML omitted -->y</p>\n",
		"<h1 id=\"a\" class=\"b\" data-x=\"1\">t</h1>\n<ol start=\"3\">\n<li>a</li>\n</ol>\n<pre><code class=\"language-go\">x\n</code></pre>\n",
		"<table>\n<thead>\n<tr>\n<th style=\"text-align:left\">a</th>\n</tr>\n</thead>\n</table>\n<p><del>x</del> <input checked=\"\" disabled=\"\" type=\"checkbox\"> &#x21a9;&#xfe0e;&#160;</p>\n",
	}
	for _, g := range good {
		if err := CheckSafe(safe, []byte(g)); err != nil {
			fmt.Printf("HARNESS-ERROR C03 oracle rejects a well-formed safe output %q: %v\n", g, err)
			t.Fail()
		}
	}
	bad := []string{
		"<p>a < b</p>\n",    // raw <
		"<p>a & b</p>\n",    // bare &
		"<p>a &amp b</p>\n", // & without ;
		"<p><a href=\"u\" title=\"a\"b\">x</a></p>\n", // quote breaks out of the value
		"<p><a href=u>x</a></p>\n",                    // unquoted value
		"<p><b>x</b></p>\n",                           // tag outside the vocabulary
		"<p onclick=\"x\">y</p>\n",                    // attribute outside the vocabulary
		"<p><em>x</p></em>\n",                         // mis-nesting
		"<p>x\n",                                      // unclosed
		"<!-- other comment --><p>x</p>\n",            // foreign comment
		"<p>x</p><br></br>\n",                         // end tag for a void element
		"<p><img src=\"a\" src=\"b\"></p>\n",          // duplicate attribute
		"<P>x</P>\n",                                  // upper-case tag
		"<p>x</p><script>1</script>\n",                // script
		"<div />\n",                                   // self-closing non-void
	}
	for _, b := range bad {
		if err := CheckSafe(safe, []byte(b)); err == nil {
			fmt.Printf("HARNESS-ERROR C03 oracle accepts a malformed output %q\n", b)
			t.Fail()
		}
	}
	if err := CheckSafe(gen.Config{XHTML: true}, []byte("<p><img src=\"u\" alt=\"a<br />b\" /></p>\n")); err == nil {
		fmt.Println("HARNESS-ERROR C03 XML check accepts '<' inside an attribute value")
		t.Fail()
	}
	dangerous := []string{"javascript:x", " JaVaScRiPt:x", "java\tscript:x", "\x01javascript:x", "vbscript:x", "FILE:///x", "data:text/html,x", "data:image/svg+xml,x", "jav\nascript:x"}
	for _, u := range dangerous {
		if !oracle.DangerousURL(u) {
			fmt.Printf("HARNESS-ERROR URL normaliser does not flag %q\n", u)
			t.Fail()
		}
	}
	benign := []string{"http://javascript:x", "data:image/png;base64,x", "data:image/svg+xml;utf8,x", "xjavascript:x", "/javascript:x", "%20javascript:x", "java%09script:x", "mailto:a@b", "#javascript:"}
	for _, u := range benign {
		if oracle.DangerousURL(u) {
			fmt.Printf("HARNESS-ERROR URL normaliser flags %q\n", u)
			t.Fail()
		}
	}
}
