// Package c03: safe mode emits only inert, well-nested markup from a fixed
// vocabulary (strict tokenizer + vocabulary + browser tokenizer agreement +
// strict XML under XHTML).
package c03

import (
	"bytes"
	"strings"
	"testing"

	"pgregory.net/rapid"

	"verif/gen"
	"verif/kit"
	"verif/oracle"
)

func TestMain(m *testing.M) {
	kit.Register("safe", safeOracle)
	kit.Describe("case = (safe-mode configuration, source) from HTML/attribute-heavy soup, line soup, repository inputs and mutations, and adversarial fragments placed in every attribute-bearing position (title, alt, info string, destination, reference title, heading attribute block, table cell, footnote label, definition term); non-trivial = the source contains one of < > \" & { and the output carries at least one attribute; distinct by hash of (configuration, source)",
		"the vocabulary (tags, fixed attribute names) is a literal table in the check; per-element attribute names are a literal copy of the documented *AttributeFilter lists (goldmark's filter objects are not consulted)", "browser view = golang.org/x/net/html tokenizer", "XML check only when the output is valid UTF-8 of XML Chars")
	kit.Main(m, "C03")
}

var coreTags = []string{"p", "h1", "h2", "h3", "h4", "h5", "h6", "blockquote", "pre", "code", "ul", "ol", "li", "hr", "a", "em", "strong", "img", "br"}

var fixedAttrs = map[string][]string{
	"a": {"href", "title", "class", "role", "id"}, "img": {"src", "alt", "title"}, "code": {"class"}, "ol": {"start"},
	"td": {"align", "style"}, "th": {"align", "style"}, "input": {"checked", "disabled", "type"},
	"li": {"id"}, "div": {"class", "role"}, "sup": {"id"},
}

// The per-element attribute vocabulary, copied from the documentation of the exported *AttributeFilter variables
// at the pinned commit. It is a literal table on purpose: asking goldmark's own filter objects (Contains) would
// make the oracle agree with a broken filter.
const globalAttrs = "accesskey,autocapitalize,autofocus,class,contenteditable,dir,draggable,enterkeyhint,hidden,id,inert,inputmode,is,itemid,itemprop,itemref,itemscope,itemtype,lang,part,role,slot,spellcheck,style,tabindex,title,translate"

var extraAttrs = map[string]string{
	"blockquote": "cite", "ul": "start,reversed,type", "ol": "start,reversed,type", "li": "value",
	"hr": "align,color,noshade,size,width", "a": "download,hreflang,media,ping,referrerpolicy,rel,shape,target",
	"img":   "align,border,crossorigin,decoding,height,importance,intrinsicsize,ismap,loading,referrerpolicy,sizes,srcset,usemap,width",
	"table": "align,bgcolor,border,cellpadding,cellspacing,frame,rules,summary,width",
	"thead": "align,bgcolor,char,charoff,valign", "tr": "align,bgcolor,char,charoff,valign",
	"th": "abbr,align,axis,bgcolor,char,charoff,colspan,headers,height,rowspan,scope,valign,width",
	"td": "abbr,align,axis,bgcolor,char,charoff,colspan,headers,height,rowspan,scope,valign,width",
}

var vocab = func() map[string]map[string]bool {
	m := map[string]map[string]bool{}
	for _, tag := range []string{"p", "h1", "h2", "h3", "h4", "h5", "h6", "blockquote", "ul", "ol", "li", "hr", "a", "code", "pre", "em", "strong", "img", "del", "table", "thead", "tr", "th", "td", "dl", "dt", "dd", "div", "sup"} {
		set := map[string]bool{}
		for _, n := range strings.Split(globalAttrs, ",") {
			set[n] = true
		}
		if x := extraAttrs[tag]; x != "" {
			for _, n := range strings.Split(x, ",") {
				set[n] = true
			}
		}
		m[tag] = set
	}
	return m
}()

func allowedTags(cfg gen.Config) map[string]bool {
	m := map[string]bool{}
	for _, t := range coreTags {
		m[t] = true
	}
	if cfg.HasStrike() {
		m["del"] = true
	}
	if cfg.HasTable() {
		for _, t := range []string{"table", "thead", "tbody", "tr", "th", "td"} {
			m[t] = true
		}
	}
	if cfg.HasTask() {
		m["input"] = true
	}
	if cfg.Footnote {
		m["sup"], m["div"] = true, true
	}
	if cfg.DefList {
		m["dl"], m["dt"], m["dd"] = true, true, true
	}
	return m
}

var lastAttrs int

// CheckSafe is the oracle proper: out is the output of a safe-mode configuration.
func CheckSafe(cfg gen.Config, out []byte) error {
	root, toks, err := oracle.ParseStrict(out)
	if err != nil {
		return kit.Violf(strings.SplitN(err.Error(), ":", 2)[0], "%v", err)
	}
	tags := allowedTags(cfg)
	nattr := 0
	for _, e := range root.All() {
		if !tags[e.Name] {
			return kit.Violf("foreign-tag", "element <%s> is not in the vocabulary of %s", e.Name, cfg)
		}
		f := vocab[e.Name]
		for _, a := range e.Attrs {
			nattr++
			ok := false
			for _, n := range fixedAttrs[e.Name] {
				if n == a.Name {
					ok = true
				}
			}
			if !ok && f[a.Name] {
				ok = true
			}
			if !ok && strings.HasPrefix(a.Name, "data-") {
				ok = true
			}
			if !ok {
				return kit.Violf("foreign-attribute", "attribute %q on <%s> is not in the vocabulary", a.Name, e.Name)
			}
		}
	}
	lastAttrs = nattr
	if err := oracle.BrowserAgrees(out, toks); err != nil {
		return kit.Violf("browser-disagrees", "%v", err)
	}
	if cfg.XHTML && oracle.XMLRepresentable(out) {
		if err := oracle.CheckXML(out); err != nil {
			return kit.Violf("not-xml", "%v in %q", err, out)
		}
	}
	return nil
}

func safeOracle(c *kit.Case) error {
	cfg := gen.ParseConfig(c.Config)
	if cfg.Unsafe {
		return nil
	}
	var buf bytes.Buffer
	if err := cfg.MD().Convert(c.Bytes["src"], &buf); err != nil {
		return kit.Violf("convert-error", "%v", err)
	}
	if err := CheckSafe(cfg, buf.Bytes()); err != nil {
		v := err.(*kit.Violation)
		v.Msg += "\noutput: " + string(buf.Bytes())
		return v
	}
	return nil
}

func run(t kit.TB, cfg gen.Config, src []byte, class string) {
	c := kit.NewCase("safe", cfg.String()).B("src", src)
	lastAttrs = 0
	if kit.Check(t, c) {
		kit.R.Class("gen:" + class)
		if bytes.ContainsAny(src, "<>\"&{") && lastAttrs > 0 {
			kit.R.NonTrivial(c)
			kit.R.Class("nontrivial")
		}
		if cfg.XHTML {
			kit.R.Class("xhtml")
		}
	}
}

var htmlHeavy = &gen.Profile{Name: "htmlheavy", Extra: []string{
	"<a>", "</a>", "<b>", "<div>", "</div>", "<script>", "</script>", "<!--", "-->", "<?", "?>", "<![CDATA[", "]]>", "<!X>", "<img src=x onerror=alert(1)>",
	"\"", "'", "<", ">", "&", "&amp;", "&quot;", "&lt;", "&#34;", "&#x22;", "&#60;", "&#38;", "&nosuch;", "&", "&#", "&#x", "&;", "\\\"", "\\<", "\\&",
	"{#id}", "{.c}", "{k=\"v\"}", "{onclick=\"x\"}", "{data-x=\"a\\\"b\"}", "{title=\"<&>\"}", "{style=\"x:y\"}", "{#a\"b}", "{k=<>}", "{data-a=1 data-a=2}", "{id=x id=y}", "{class=a .b}", "{data-=\"x\"}", "{data-\"=x}", "{a:b=c}", "{x.y=z}", "{_a=b}",
	"\"><script>", "'><x>", "\" onmouseover=\"x", "--><x>", "]]><x>", "?><x>", "\x00", "\x80", "\n", "\n", " ", "# ", "## ", "```", "~~~", "[", "]", "(", ")", "![",
}}

var frags = []string{"\"", "'", "<", ">", "&", "\"><script>alert(1)</script>", "\" onerror=\"x", "'><b>", "<!-- x -->", "--><b>", "&quot;", "&#34;", "&#x22;", "&amp;quot;", "&lt;b&gt;", "<b>", "</a>", "</code>", "</pre>", "\\\"", "\\<", "&", "&#", "&x", "a&b", "\x00", "\x80\"", "é\"", "x\ny", "x  \ny", "x\\\ny", "*e*", "`c`", "]", ")", "|", "{", "}", "{#x}", "<a href=\"x\">", "a\"b'c<d>e&f", "<http://a/\"o=\"1>", "<x&y@a.bc>", "<http://a/?a&b=\"c\">", "<mailto:a\"b@c.de>", "[l](u \"t\")", "![i](u 't')", "<http://a.b/&nvlt;>", "`\"`", "*\"*", "`<b>\\|`", "`\\|\"`", "`a\\|&<`", "`<script>\\|`"}

func frag(t *rapid.T, label string) []byte {
	if rapid.IntRange(0, 2).Draw(t, label+"k") == 0 {
		return gen.Soup(t, htmlHeavy, 5, label+"s")
	}
	n := rapid.IntRange(1, 3).Draw(t, label+"n")
	var b []byte
	for i := 0; i < n; i++ {
		b = append(b, rapid.SampledFrom(frags).Draw(t, label+"f")...)
	}
	return b
}

var templates = []string{
	"[x](u \"@\")\n", "[x](u '@')\n", "[x](u (@))\n", "![@](u)\n", "![a](u \"@\")\n", "[@](u)\n", "[x](@)\n", "[x](<@>)\n", "![x](@)\n",
	"```@\nc\n```\n", "~~~ @\nc\n~~~\n", "# h {@}\n", "# h {#@}\n", "# h {.@}\n", "# h {k=\"@\"}\n", "# h {k=@}\n", "# h {data-x=\"@\"}\n", "h\n= {@}\n", "h {k=\"@\"}\n===\n", "# @\n",
	"[r]\n\n[r]: u \"@\"\n", "[r]\n\n[r]: <@> '@'\n", "[@]\n\n[@]: u\n", "|@|b|\n|-|-|\n|c|@|\n", "|a|\n|-|\n|@|\n", "| @ | @ |\n|:-|-:|\n", "|a|\n|:-|\n|@|\n", "x[^@]\n\n[^@]: n\n", "x[^1]\n\n[^1]: @\n", "@\n: d\n", "t\n: @\n",
	"<@>\n", "<http://a.b/@>\n", "<a@b.c@>\n", "http://a.b/@\n", "www.a.bc/@\n", "- [ ] @\n", "- [x] @\n", "~~@~~\n", "*@*\n", "`@`\n", "    @\n", "> @\n", "1. @\n", "<div @>\n", "<div>\n@\n</div>\n", "<!-- @ -->\n", "<@\n", "@",
	"![a  \nb@](u)\n", "![a\\\nb](u \"@\")\n", "[![@](u)](v \"@\")\n", "# h {#i .c k=v data-y=\"@\"}\n",
}

func attack(t *rapid.T) []byte {
	tpl := rapid.SampledFrom(templates).Draw(t, "tpl")
	var b []byte
	for i := 0; i < len(tpl); i++ {
		if tpl[i] == '@' {
			b = append(b, frag(t, "frag")...)
		} else {
			b = append(b, tpl[i])
		}
	}
	if rapid.Bool().Draw(t, "wrap") {
		b = append(gen.Soup(t, htmlHeavy, 4, "pre"), append([]byte("\n\n"), b...)...)
	}
	return b
}

func TestKnown(t *testing.T)  { kit.RunKnown(t) }
func TestReplay(t *testing.T) { kit.RunReplay(t) }

func TestSafeSoup(t *testing.T) {
	kit.Rapid(t, "soup", 200000, 10000000, func(t *rapid.T) {
		cfg := gen.DrawConfig(t, gen.ConfigOpts{SafeOnly: true})
		var src []byte
		var class string
		if rapid.Bool().Draw(t, "heavy") {
			src, class = gen.Soup(t, htmlHeavy, kit.Pick(30, 80), "h"), "htmlheavy"
		} else {
			src, class = gen.Doc(t, gen.Any, kit.Pick(40, 100), "d")
		}
		run(t, cfg, src, class)
	})
}

func TestSafeAttack(t *testing.T) {
	kit.Rapid(t, "attack", 200000, 10000000, func(t *rapid.T) {
		cfg := gen.DrawConfig(t, gen.ConfigOpts{SafeOnly: true})
		if rapid.Bool().Draw(t, "forceattr") {
			cfg.Attr = true
		}
		run(t, cfg, attack(t), "attack")
	})
}

// attribute names: members of the vocabulary, one-letter edits of members, position-wise mixes of two members
// (what a per-position character table cannot tell apart), short names over the letters of the vocabulary,
// event handlers and prefixes of data-. Only names in the literal vocabulary (or data-*) may come out.
var vocabNames = strings.Split(globalAttrs+",cite,start,reversed,type,value,align,color,noshade,size,width,download,hreflang,media,ping,referrerpolicy,rel,shape,target,border,crossorigin,decoding,height,importance,intrinsicsize,ismap,loading,sizes,srcset,usemap,bgcolor,cellpadding,cellspacing,frame,rules,summary,char,charoff,valign,abbr,axis,colspan,headers,rowspan,scope", ",")

func attrName(t *rapid.T, label string) string {
	a := rapid.SampledFrom(vocabNames).Draw(t, label+"a")
	const letters = "abcdefghijklmnopqrstuvwxyz"
	switch rapid.IntRange(0, 7).Draw(t, label+"k") {
	case 0:
		return a
	case 1: // substitute one letter
		i := rapid.IntRange(0, len(a)-1).Draw(t, label+"i")
		return a[:i] + string(letters[rapid.IntRange(0, 25).Draw(t, label+"c")]) + a[i+1:]
	case 2: // delete / append / duplicate
		i := rapid.IntRange(0, len(a)-1).Draw(t, label+"i")
		switch rapid.IntRange(0, 2).Draw(t, label+"e") {
		case 0:
			return a[:i] + a[i+1:]
		case 1:
			return a + string(letters[rapid.IntRange(0, 25).Draw(t, label+"c")])
		}
		return a[:i] + a[i:i+1] + a[i:]
	case 3, 4: // position-wise mix of two members
		b := rapid.SampledFrom(vocabNames).Draw(t, label+"b")
		n := len(a)
		if rapid.Bool().Draw(t, label+"len") {
			n = len(b)
		}
		out := make([]byte, 0, n)
		for i := 0; i < n; i++ {
			src := a
			if rapid.Bool().Draw(t, label+"pick") {
				src = b
			}
			if i < len(src) {
				out = append(out, src[i])
			} else if i < len(a) {
				out = append(out, a[i])
			} else {
				out = append(out, b[i])
			}
		}
		return string(out)
	case 5: // short name over the vocabulary's letters
		return rapid.StringMatching("[acdehilnoprstuy]{1,4}").Draw(t, label+"s")
	case 6:
		return rapid.SampledFrom([]string{"onclick", "onerror", "onload", "onmouseover", "href", "src", "srcdoc", "action", "formaction", "xlink:href", "xmlns", "data", "data-", "data-x", "dat", "data_x", "DATA-X", "Style", "ID", "aria-label", "http-equiv", "for", "name", "checked", "disabled"}).Draw(t, label+"h")
	default: // prefix of a member
		return a[:rapid.IntRange(1, len(a)).Draw(t, label+"n")]
	}
}

func TestSafeAttrNames(t *testing.T) {
	kit.Rapid(t, "attrnames", 60000, 3000000, func(t *rapid.T) {
		cfg := gen.DrawConfig(t, gen.ConfigOpts{SafeOnly: true, ForceAttr: true})
		n := rapid.IntRange(1, 4).Draw(t, "n")
		var block []string
		for i := 0; i < n; i++ {
			v := rapid.SampledFrom([]string{"v", "\"v w\"", "1", "true", "\"<&\\\">\"", "[a]"}).Draw(t, "v")
			block = append(block, attrName(t, "name"+string(rune('0'+i)))+"="+v)
		}
		attrs := "{" + strings.Join(block, " ") + "}"
		tpl := rapid.SampledFrom([]string{"# h @\n", "## h ## @\n", "h @\n===\n", "> # q @\n", "- ### i @\n", "```go @\nc\n```\n", "~~~ @\nc\n~~~\n", "# *e* `c` @\n\n|a|\n|-|\n"}).Draw(t, "tpl")
		run(t, cfg, []byte(strings.Replace(tpl, "@", attrs, 1)), "attrnames")
	})
}

// TestSafeConstructs runs the safe-mode oracle on the construct-adjacency documents.
func TestSafeConstructs(t *testing.T) {
	cfgs := []gen.Config{{XHTML: true}, {GFM: true, DefList: true, Footnote: true, Typo: true, CJK: 1, AutoID: true, Attr: true}}
	n := gen.EnumConstructDocs(kit.Thorough(), func(idx int, doc []byte) {
		if !kit.Mine(idx) {
			return
		}
		for _, cfg := range cfgs {
			run(t, cfg, doc, "exhaustive-constructs")
		}
	})
	kit.R.Note("exhaustive_constructs", n)
}

func FuzzSafe(f *testing.F) {
	for _, e := range gen.Spec() {
		f.Add(uint16(0x30), []byte(e.Markdown))
	}
	for i, e := range gen.Extra() {
		f.Add(uint16(i*37), e)
	}
	for _, tpl := range templates {
		for _, fr := range frags[:12] {
			f.Add(uint16(0xffff), []byte(strings.ReplaceAll(tpl, "@", fr)))
		}
	}
	f.Fuzz(func(t *testing.T, cfgBits uint16, src []byte) {
		if len(src) > 8192 {
			return
		}
		cfg := gen.ConfigFromBits(uint32(cfgBits))
		cfg.Unsafe = false
		run(t, cfg, src, "fuzz")
	})
}
