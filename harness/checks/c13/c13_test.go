// Package c13: the AST mutation API and Walk behave like a plain ordered tree.
package c13

import (
	"errors"
	"fmt"
	"strconv"
	"strings"
	"testing"

	"github.com/yuin/goldmark/ast"
	"pgregory.net/rapid"

	"verif/kit"
)

func TestMain(m *testing.M) {
	kit.Register("tree", treeOracle)
	kit.Describe("case = (initial forest over a pool of 4..7 nodes of mixed concrete types, operation list of AppendChild / InsertBefore / InsertAfter / ReplaceChild (each with a nil, child or foreign reference) / RemoveChild (child or not) / RemoveChildren / SortChildren (comparator from a key assignment), walker status script); operations whose documented precondition fails on the model (insertee is the parent or one of its ancestors, insertee == reference) are skipped by the oracle itself; after every operation every pool node's forward and backward child sequence, Parent, ChildCount and HasChildren are compared with a list-of-children model; finally ast.Walk started on every node (roots and inner nodes: the walk must stay inside that node's subtree) is compared (events and returned error) with a reference recursion under the status script. Thorough enumerates all sequences of length <= 3 over a pool of 4 nodes from 4 initial forests exhaustively (quick: length <= 2). non-trivial = the sequence moves a node between parents or inserts relative to a first/last/foreign reference, and the final forest has depth >= 2; distinct by hash of the case",
		"SortChildren is checked with a validity predicate (a permutation, non-decreasing under the comparator): stability is not documented", "a nil reference is generated for InsertBefore, InsertAfter and ReplaceChild alike (nil is not a child of the node, so the documented meaning is append; for ReplaceChild nothing is removed)")
	kit.Main(m, "C13")
}

// ---- model

type model struct {
	kids   [][]int
	parent []int
}

func newModel(n int) *model {
	m := &model{kids: make([][]int, n), parent: make([]int, n)}
	for i := range m.parent {
		m.parent[i] = -1
	}
	return m
}

func (m *model) isAncestorOrSelf(a, n int) bool { // a is n or an ancestor of n
	for x := n; x != -1; x = m.parent[x] {
		if x == a {
			return true
		}
	}
	return false
}

func (m *model) detach(c int) {
	p := m.parent[c]
	if p == -1 {
		return
	}
	k := m.kids[p]
	for i, x := range k {
		if x == c {
			m.kids[p] = append(append([]int{}, k[:i]...), k[i+1:]...)
			break
		}
	}
	m.parent[c] = -1
}

func (m *model) index(p, c int) int {
	for i, x := range m.kids[p] {
		if x == c {
			return i
		}
	}
	return -1
}

func (m *model) insertAt(p, i, c int) {
	k := m.kids[p]
	nk := append(append(append([]int{}, k[:i]...), c), k[i:]...)
	m.kids[p] = nk
	m.parent[c] = p
}

func (m *model) depth(n int) int {
	d := 1
	for _, c := range m.kids[n] {
		if x := 1 + m.depth(c); x > d {
			d = x
		}
	}
	return d
}

// ---- real nodes

func mkNode(i int) ast.Node {
	switch i % 5 {
	case 0:
		return ast.NewParagraph()
	case 1:
		return ast.NewEmphasis(1)
	case 2:
		return ast.NewText()
	case 3:
		return ast.NewList('-')
	default:
		return ast.NewBlockquote()
	}
}

type op struct {
	kind    byte
	p, r, c int
	keys    string
}

func parseOps(s string) []op {
	var ops []op
	for _, f := range strings.Split(s, ";") {
		f = strings.TrimSpace(f)
		if f == "" {
			continue
		}
		parts := strings.Fields(f)
		o := op{kind: parts[0][0], r: -1}
		get := func(i int) int {
			if i < len(parts) {
				v, _ := strconv.Atoi(parts[i])
				return v
			}
			return 0
		}
		switch o.kind {
		case 'A', 'D':
			o.p, o.c = get(1), get(2)
		case 'B', 'F', 'R':
			o.p, o.r, o.c = get(1), get(2), get(3)
		case 'X':
			o.p = get(1)
		case 'S':
			o.p = get(1)
			if len(parts) > 2 {
				o.keys = parts[2]
			}
		}
		ops = append(ops, o)
	}
	return ops
}

func (o op) String() string {
	switch o.kind {
	case 'A', 'D':
		return fmt.Sprintf("%c %d %d", o.kind, o.p, o.c)
	case 'B', 'F', 'R':
		return fmt.Sprintf("%c %d %d %d", o.kind, o.p, o.r, o.c)
	case 'X':
		return fmt.Sprintf("X %d", o.p)
	}
	return fmt.Sprintf("S %d %s", o.p, o.keys)
}

var opNames = map[byte]string{'A': "AppendChild", 'B': "InsertBefore", 'F': "InsertAfter", 'R': "ReplaceChild", 'D': "RemoveChild", 'X': "RemoveChildren", 'S': "SortChildren"}

type stats struct {
	applied, moved, edgeRef int
	depth                   int
}

var last stats

// apply runs one operation on the model and the real nodes; it returns false
// when the documented precondition does not hold (operation skipped).
func apply(m *model, nodes []ast.Node, o op, st *stats) (bool, error) {
	n := len(nodes)
	in := func(x int) bool { return x >= 0 && x < n }
	if !in(o.p) {
		return false, nil
	}
	switch o.kind {
	case 'A', 'B', 'F', 'R':
		if !in(o.c) || m.isAncestorOrSelf(o.c, o.p) {
			return false, nil
		}
		if o.kind != 'A' {
			if o.r == o.c {
				return false, nil
			}
			if o.r != -1 && !in(o.r) {
				return false, nil
			}
		}
	case 'D':
		if !in(o.c) {
			return false, nil
		}
	}
	switch o.kind {
	case 'A':
		if m.parent[o.c] != -1 && m.parent[o.c] != o.p {
			st.moved++
		}
		m.detach(o.c)
		m.insertAt(o.p, len(m.kids[o.p]), o.c)
		nodes[o.p].AppendChild(nodes[o.p], nodes[o.c])
	case 'B':
		if m.parent[o.c] != -1 && m.parent[o.c] != o.p {
			st.moved++
		}
		foreign := o.r == -1 || m.parent[o.r] != o.p
		if foreign || m.index(o.p, o.r) == 0 {
			st.edgeRef++
		}
		m.detach(o.c)
		if foreign {
			m.insertAt(o.p, len(m.kids[o.p]), o.c)
		} else {
			m.insertAt(o.p, m.index(o.p, o.r), o.c)
		}
		var ref ast.Node
		if o.r != -1 {
			ref = nodes[o.r]
		}
		nodes[o.p].InsertBefore(nodes[o.p], ref, nodes[o.c])
	case 'F':
		if m.parent[o.c] != -1 && m.parent[o.c] != o.p {
			st.moved++
		}
		foreign := o.r == -1 || m.parent[o.r] != o.p
		if foreign || m.index(o.p, o.r) == len(m.kids[o.p])-1 {
			st.edgeRef++
		}
		m.detach(o.c)
		if foreign {
			m.insertAt(o.p, len(m.kids[o.p]), o.c)
		} else {
			m.insertAt(o.p, m.index(o.p, o.r)+1, o.c)
		}
		nodes[o.p].InsertAfter(nodes[o.p], refNode(nodes, o.r), nodes[o.c])
	case 'R':
		if m.parent[o.c] != -1 && m.parent[o.c] != o.p {
			st.moved++
		}
		foreign := o.r == -1 || m.parent[o.r] != o.p
		if foreign {
			st.edgeRef++
		}
		m.detach(o.c)
		if foreign {
			m.insertAt(o.p, len(m.kids[o.p]), o.c)
		} else {
			i := m.index(o.p, o.r)
			m.insertAt(o.p, i, o.c)
			m.detach(o.r)
		}
		nodes[o.p].ReplaceChild(nodes[o.p], refNode(nodes, o.r), nodes[o.c])
	case 'D':
		if m.parent[o.c] == o.p {
			m.detach(o.c)
		}
		nodes[o.p].RemoveChild(nodes[o.p], nodes[o.c])
	case 'X':
		for _, c := range append([]int{}, m.kids[o.p]...) {
			m.parent[c] = -1
		}
		m.kids[o.p] = nil
		nodes[o.p].RemoveChildren(nodes[o.p])
	case 'S':
		key := func(i int) int {
			if i < len(o.keys) {
				return int(o.keys[i] - '0')
			}
			return 0
		}
		idx := map[ast.Node]int{}
		for i, nd := range nodes {
			idx[nd] = i
		}
		before := append([]int{}, m.kids[o.p]...)
		nodes[o.p].SortChildren(func(a, b ast.Node) int { return key(idx[a]) - key(idx[b]) })
		// validity predicate: a permutation of the children, non-decreasing
		var after []int
		cnt := 0
		for c := nodes[o.p].FirstChild(); c != nil; c = c.NextSibling() {
			after = append(after, idx[c])
			if cnt++; cnt > n+1 {
				return true, kit.Violf("sort-cycle", "SortChildren left a cycle in the sibling chain")
			}
		}
		if !samePerm(before, after) {
			return true, kit.Violf("sort-not-permutation", "SortChildren turned children %v into %v", before, after)
		}
		for i := 1; i < len(after); i++ {
			if key(after[i-1]) > key(after[i]) {
				return true, kit.Violf("sort-order", "SortChildren result %v is not ordered by keys %q", after, o.keys)
			}
		}
		m.kids[o.p] = after
	default:
		return false, nil
	}
	st.applied++
	return true, nil
}

// refNode returns the reference node of an insertion; -1 stands for a nil reference.
func refNode(nodes []ast.Node, r int) ast.Node {
	if r == -1 {
		return nil
	}
	return nodes[r]
}

func samePerm(a, b []int) bool {
	if len(a) != len(b) {
		return false
	}
	cnt := map[int]int{}
	for _, x := range a {
		cnt[x]++
	}
	for _, x := range b {
		cnt[x]--
	}
	for _, v := range cnt {
		if v != 0 {
			return false
		}
	}
	return true
}

func compare(m *model, nodes []ast.Node) error {
	idx := map[ast.Node]int{}
	for i, nd := range nodes {
		idx[nd] = i
	}
	name := func(x ast.Node) string {
		if x == nil {
			return "nil"
		}
		if i, ok := idx[x]; ok {
			return strconv.Itoa(i)
		}
		return "?"
	}
	for i, nd := range nodes {
		var fwd, bwd []string
		k := 0
		for c := nd.FirstChild(); c != nil; c = c.NextSibling() {
			fwd = append(fwd, name(c))
			if k++; k > len(nodes)+2 {
				return kit.Violf("cycle", "forward sibling chain of node %d does not end: %v", i, fwd)
			}
		}
		k = 0
		for c := nd.LastChild(); c != nil; c = c.PreviousSibling() {
			bwd = append([]string{name(c)}, bwd...)
			if k++; k > len(nodes)+2 {
				return kit.Violf("cycle", "backward sibling chain of node %d does not end: %v", i, bwd)
			}
		}
		var want []string
		for _, c := range m.kids[i] {
			want = append(want, strconv.Itoa(c))
		}
		if strings.Join(fwd, ",") != strings.Join(want, ",") {
			return kit.Violf("children-forward", "node %d: FirstChild/NextSibling gives [%s], model [%s]", i, strings.Join(fwd, ","), strings.Join(want, ","))
		}
		if strings.Join(bwd, ",") != strings.Join(want, ",") {
			return kit.Violf("children-backward", "node %d: LastChild/PreviousSibling gives [%s], model [%s]", i, strings.Join(bwd, ","), strings.Join(want, ","))
		}
		wp := "nil"
		if m.parent[i] != -1 {
			wp = strconv.Itoa(m.parent[i])
		}
		if name(nd.Parent()) != wp {
			return kit.Violf("parent", "node %d: Parent is %s, model %s", i, name(nd.Parent()), wp)
		}
		if nd.ChildCount() != len(want) {
			return kit.Violf("child-count", "node %d: ChildCount()=%d, model has %d children", i, nd.ChildCount(), len(want))
		}
		if nd.HasChildren() != (len(want) > 0) {
			return kit.Violf("has-children", "node %d: HasChildren()=%v with %d children", i, nd.HasChildren(), len(want))
		}
		if m.parent[i] == -1 && (nd.NextSibling() != nil || nd.PreviousSibling() != nil) {
			return kit.Violf("stale-sibling", "detached node %d still has a sibling link", i)
		}
	}
	return nil
}

var errScript = errors.New("walker error")

func statusOf(script string, k int) (ast.WalkStatus, error) {
	if len(script) == 0 {
		return ast.WalkContinue, nil
	}
	switch script[k%len(script)] {
	case '1':
		return ast.WalkSkipChildren, nil
	case '2':
		return ast.WalkStop, nil
	case '3':
		return ast.WalkContinue, errScript
	case '4':
		return ast.WalkSkipChildren, errScript
	case '5':
		return ast.WalkStop, errScript
	}
	return ast.WalkContinue, nil
}

func refWalk(m *model, n int, visit func(n int, entering bool) (ast.WalkStatus, error)) (ast.WalkStatus, error) {
	s, err := visit(n, true)
	if err != nil || s == ast.WalkStop {
		return ast.WalkStop, err
	}
	if s != ast.WalkSkipChildren {
		for _, c := range m.kids[n] {
			if s2, err := refWalk(m, c, visit); err != nil || s2 == ast.WalkStop {
				return ast.WalkStop, err
			}
		}
	}
	s, err = visit(n, false)
	if err != nil || s == ast.WalkStop {
		return ast.WalkStop, err
	}
	return ast.WalkContinue, nil
}

func checkWalk(m *model, nodes []ast.Node, script string) error {
	idx := map[ast.Node]int{}
	for i, nd := range nodes {
		idx[nd] = i
	}
	// Walk from every node, not only from roots: a walk started on a node that has a parent and
	// siblings must stay inside that node's subtree.
	for root := range nodes {
		var got, want []string
		k := 0
		gerr := ast.Walk(nodes[root], func(n ast.Node, entering bool) (ast.WalkStatus, error) {
			got = append(got, fmt.Sprintf("%d%v", idx[n], entering))
			s, e := statusOf(script, k)
			k++
			if k > 4*len(nodes)+4 {
				return ast.WalkStop, errors.New("walk does not end")
			}
			return s, e
		})
		k2 := 0
		_, werr := refWalk(m, root, func(n int, entering bool) (ast.WalkStatus, error) {
			want = append(want, fmt.Sprintf("%d%v", n, entering))
			s, e := statusOf(script, k2)
			k2++
			return s, e
		})
		if strings.Join(got, " ") != strings.Join(want, " ") {
			return kit.Violf("walk-events", "Walk from node %d with script %q visited [%s], reference [%s]", root, script, strings.Join(got, " "), strings.Join(want, " "))
		}
		if (gerr == nil) != (werr == nil) || (gerr != nil && !errors.Is(gerr, werr)) {
			return kit.Violf("walk-error", "Walk from node %d with script %q returned %v, reference %v", root, script, gerr, werr)
		}
	}
	return nil
}

var initials = []string{"", "A 0 1; A 0 2", "A 0 1; A 0 2; A 0 3", "A 0 1; A 2 3", "A 0 1; A 1 2", "A 0 1; A 0 2; A 3 4; A 3 5; A 1 6"}

func runSeq(n int, init, ops, script string, st *stats) error {
	m := newModel(n)
	nodes := make([]ast.Node, n)
	for i := range nodes {
		nodes[i] = mkNode(i)
	}
	var scratch stats
	for _, o := range parseOps(init) {
		if _, err := apply(m, nodes, o, &scratch); err != nil {
			return err
		}
	}
	if err := compare(m, nodes); err != nil {
		return kit.Violf("initial", "building the initial forest %q: %v", init, err)
	}
	for step, o := range parseOps(ops) {
		ok, err := apply(m, nodes, o, st)
		if err != nil {
			return err
		}
		if !ok {
			continue
		}
		if err := compare(m, nodes); err != nil {
			v := err.(*kit.Violation)
			v.Msg = fmt.Sprintf("after step %d %s(%s): %s", step, opNames[o.kind], o.String(), v.Msg)
			return v
		}
	}
	for i := range nodes {
		if m.parent[i] == -1 {
			if d := m.depth(i); d > st.depth {
				st.depth = d
			}
		}
	}
	return checkWalk(m, nodes, script)
}

func treeOracle(c *kit.Case) error {
	last = stats{}
	return runSeq(int(c.Ints["n"]), c.Strs["init"], c.Strs["ops"], c.Strs["script"], &last)
}

func TestKnown(t *testing.T)  { kit.RunKnown(t) }
func TestReplay(t *testing.T) { kit.RunReplay(t) }

func drawOp(t *rapid.T, n int) op {
	kind := rapid.SampledFrom([]byte("AAABBBFFFRRDDXS")).Draw(t, "kind")
	o := op{kind: kind, r: -1}
	o.p = rapid.IntRange(0, n-1).Draw(t, "p")
	o.c = rapid.IntRange(0, n-1).Draw(t, "c")
	switch kind {
	case 'B', 'F', 'R':
		o.r = rapid.IntRange(-1, n-1).Draw(t, "r")
	case 'S':
		var sb strings.Builder
		for i := 0; i < n; i++ {
			sb.WriteByte(byte('0' + rapid.IntRange(0, 3).Draw(t, "key")))
		}
		o.keys = sb.String()
	}
	return o
}

func TestRandomSequences(t *testing.T) {
	kit.Rapid(t, "seq", 300000, 12000000, func(t *rapid.T) {
		n := rapid.IntRange(4, 7).Draw(t, "n")
		init := rapid.SampledFrom(initials).Draw(t, "init")
		nops := rapid.IntRange(1, 30).Draw(t, "nops")
		var parts []string
		for i := 0; i < nops; i++ {
			parts = append(parts, drawOp(t, n).String())
		}
		script := rapid.StringOfN(rapid.RuneFrom([]rune("000000112345")), 0, 12, -1).Draw(t, "script")
		c := kit.NewCase("tree", "").I("n", int64(n)).S("init", init).S("ops", strings.Join(parts, "; ")).S("script", script)
		if kit.Check(t, c) {
			kit.R.Class("random-sequences")
			kit.R.ClassN("operations-applied", int64(last.applied))
			if (last.moved > 0 || last.edgeRef > 0) && last.depth >= 2 {
				kit.R.NonTrivial(c)
			}
		}
	})
}

// allOps enumerates every operation over a pool of n nodes (sort with two key assignments).
func allOps(n int) []op {
	var ops []op
	for p := 0; p < n; p++ {
		for c := 0; c < n; c++ {
			ops = append(ops, op{kind: 'A', p: p, c: c, r: -1}, op{kind: 'D', p: p, c: c, r: -1})
			for r := -1; r < n; r++ {
				ops = append(ops, op{kind: 'B', p: p, r: r, c: c}, op{kind: 'F', p: p, r: r, c: c}, op{kind: 'R', p: p, r: r, c: c})
			}
		}
		ops = append(ops, op{kind: 'X', p: p, r: -1}, op{kind: 'S', p: p, r: -1, keys: "0123"}, op{kind: 'S', p: p, r: -1, keys: "3110"})
	}
	return ops
}

// TestExhaustive enumerates all operation sequences up to length L over a
// pool of 4 nodes from 4 initial forests (quick L=2, thorough L=3).
func TestExhaustive(t *testing.T) {
	L := kit.Pick(2, 3)
	ops := allOps(4)
	inits := initials[:4]
	scripts := []string{"0", "01", "0002", "013", "04", "0005", "10", "0014"}
	idx := 0
	var rec func(prefix []op)
	count := int64(0)
	check := func(seq []op) bool {
		idx++
		if !kit.Mine(idx) {
			return true
		}
		var parts []string
		for _, o := range seq {
			parts = append(parts, o.String())
		}
		opsStr := strings.Join(parts, "; ")
		for ii, init := range inits {
			c := kit.NewCase("tree", "").I("n", 4).S("init", init).S("ops", opsStr).S("script", scripts[(idx+ii)%len(scripts)])
			if !kit.Check(t, c) {
				return false
			}
			count++
			if (last.moved > 0 || last.edgeRef > 0) && last.depth >= 2 && count%64 == 0 {
				kit.R.NonTrivial(c)
			}
		}
		return true
	}
	rec = func(prefix []op) {
		if len(prefix) > 0 {
			check(prefix)
		}
		if len(prefix) == L {
			return
		}
		for _, o := range ops {
			rec(append(prefix, o))
		}
	}
	rec(nil)
	kit.R.ClassN("exhaustive-sequences", count)
	kit.R.Note("exhaustive", true)
	kit.R.Note("exhaustive_what", fmt.Sprintf("all operation sequences of length <= %d over %d operations on a pool of 4 nodes x 4 initial forests (only every 64th non-trivial one is entered into the distinct set)", L, len(ops)))
}
