// Package c10: renderer options are orthogonal rewrites of the same output.
package c10

import (
	"bytes"
	"html"
	"testing"

	"github.com/yuin/goldmark/ast"
	"github.com/yuin/goldmark/text"
	"pgregory.net/rapid"

	"verif/gen"
	"verif/kit"
	"verif/oracle"
)

func TestMain(m *testing.M) {
	kit.Register("options", optionsOracle)
	kit.Describe("case = (extension set + parser options with table alignment pinned and East-Asian line-break suppression off, source); the 8 outputs for the subsets of {XHTML, HardWraps, Unsafe} are computed and each of the 12 edges of that cube is checked with a two-pointer aligner that admits only the licensed edit: XHTML: ' />' for the '>' closing a br/hr/img/input start tag (and, in safe mode, every void tag carries it); HardWraps: '<br>' / '<br />' inserted immediately before an LF, as many as the tree has rendered soft breaks; Unsafe: placeholder comment <-> the raw bytes of the next RawHTML node / HTMLBlock lines / closure line in document order, empty href/src <-> a value that a browser-like normaliser calls dangerous. non-trivial = at least one edge changed at least one byte; distinct by hash of (configuration, source)",
		"raw chunks are taken from the AST's own segments (NUL shown as U+FFFD in blocks)", "dangerous = the documented list (javascript:, vbscript:, file:, data: except the allowed image types), judged by the harness's own normaliser")
	kit.Main(m, "C10")
}

const placeholder = "<!-- raw HTML omitted -->"

type chunk struct {
	block bool
	raw   []byte
}

// chunks lists the raw HTML fragments in render order.
func chunks(doc ast.Node, src []byte) (out []chunk, softBreaks int) {
	var walk func(n ast.Node, skipText bool)
	walk = func(n ast.Node, hidden bool) {
		switch v := n.(type) {
		case *ast.HTMLBlock:
			var b []byte
			for i := 0; i < v.Lines().Len(); i++ {
				l := v.Lines().At(i)
				b = append(b, l.Value(src)...)
			}
			out = append(out, chunk{true, bytes.ReplaceAll(b, []byte{0}, []byte("\ufffd"))})
			if v.HasClosure() {
				out = append(out, chunk{true, bytes.ReplaceAll(v.ClosureLine.Value(src), []byte{0}, []byte("\ufffd"))})
			}
			return
		case *ast.RawHTML:
			if hidden {
				return
			}
			var b []byte
			for i := 0; i < v.Segments.Len(); i++ {
				s := v.Segments.At(i)
				b = append(b, s.Value(src)...)
			}
			out = append(out, chunk{false, b})
			return
		case *ast.Text:
			if !hidden && !v.IsRaw() && v.SoftLineBreak() && !v.HardLineBreak() {
				softBreaks++
			}
		}
		h := hidden || n.Kind() == ast.KindImage || n.Kind() == ast.KindCodeSpan
		for c := n.FirstChild(); c != nil; c = c.NextSibling() {
			walk(c, h)
		}
	}
	walk(doc, false)
	return
}

func relXHTML(a, b []byte) (int, error) {
	i, j, edits := 0, 0, 0
	for i < len(a) || j < len(b) {
		if i < len(a) && j < len(b) && a[i] == b[j] {
			i++
			j++
			continue
		}
		if i < len(a) && a[i] == '>' && bytes.HasPrefix(b[j:], []byte(" />")) {
			k := bytes.LastIndexByte(a[:i], '<')
			if k >= 0 {
				e := k + 1
				for e < i && (a[e] >= 'a' && a[e] <= 'z') {
					e++
				}
				if oracle.VoidTags[string(a[k+1:e])] {
					i++
					j += 3
					edits++
					continue
				}
			}
		}
		return edits, kit.Violf("xhtml-not-orthogonal", "outputs differ by more than ' />' on void elements at offset %d/%d:\n without XHTML %q\n with XHTML    %q", i, j, a, b)
	}
	return edits, nil
}

func relHardWraps(a, b []byte, xhtml bool) (int, error) {
	br := []byte("<br>")
	if xhtml {
		br = []byte("<br />")
	}
	i, j, edits := 0, 0, 0
	for i < len(a) || j < len(b) {
		// an insertion is preferred when b has "<br>\n" where a has "\n"
		if i < len(a) && a[i] == '\n' && bytes.HasPrefix(b[j:], br) && j+len(br) < len(b) && b[j+len(br)] == '\n' {
			j += len(br) + 1
			i++
			edits++
			continue
		}
		if i < len(a) && j < len(b) && a[i] == b[j] {
			i++
			j++
			continue
		}
		return edits, kit.Violf("hardwraps-not-orthogonal", "outputs differ by more than <br> before a line feed at offset %d/%d:\n without HardWraps %q\n with HardWraps    %q", i, j, a, b)
	}
	return edits, nil
}

func relUnsafe(s, u []byte, ch []chunk) (int, error) {
	i, j, c, edits := 0, 0, 0, 0
	fail := func(why string) (int, error) {
		return edits, kit.Violf("unsafe-not-orthogonal", "%s at offset %d/%d:\n safe   %q\n unsafe %q", why, i, j, s, u)
	}
	for i < len(s) || j < len(u) {
		if bytes.HasPrefix(s[i:], []byte(placeholder)) {
			if c >= len(ch) {
				return fail("placeholder without a raw HTML node in the tree")
			}
			k := ch[c]
			safeForm := placeholder
			if k.block {
				safeForm += "\n"
			}
			if !bytes.HasPrefix(s[i:], []byte(safeForm)) {
				return fail("placeholder form does not match the node type")
			}
			if !bytes.HasPrefix(u[j:], k.raw) {
				return fail("unsafe output does not carry the raw bytes " + string(k.raw))
			}
			i += len(safeForm)
			j += len(k.raw)
			// a block line that ends the input without a line ending: the renderer may terminate it (EOF as newline)
			if k.block && !bytes.HasSuffix(k.raw, []byte("\n")) && j < len(u) && u[j] == '\n' {
				j++
			}
			c++
			if !bytes.Equal([]byte(safeForm), k.raw) {
				edits++
			}
			continue
		}
		if i < len(s) && j < len(u) && s[i] == u[j] {
			i++
			j++
			continue
		}
		// empty href/src in safe mode vs a dangerous value in unsafe mode
		if i < len(s) && s[i] == '"' && i > 0 && s[i-1] == '"' &&
			(bytes.HasSuffix(s[:i], []byte(" href=\"")) || bytes.HasSuffix(s[:i], []byte(" src=\""))) {
			e := bytes.IndexByte(u[j:], '"')
			if e > 0 {
				val := html.UnescapeString(string(u[j : j+e]))
				if oracle.DangerousURL(val) {
					j += e
					edits++
					continue
				}
				return fail("URL " + val + " is blanked in safe mode but is not a dangerous URL")
			}
		}
		return fail("outputs differ outside raw HTML and dangerous URLs")
	}
	if c != len(ch) {
		return fail("raw HTML node of the tree has no counterpart in the output")
	}
	return edits, nil
}

var lastEdits [3]int

func optionsOracle(c *kit.Case) error {
	base := gen.ParseConfig(c.Config)
	base.XHTML, base.HardWraps, base.Unsafe = false, false, false
	src := c.Bytes["src"]
	var out [8][]byte
	cfgOf := func(m int) gen.Config {
		x := base
		x.XHTML, x.HardWraps, x.Unsafe = m&1 != 0, m&2 != 0, m&4 != 0
		return x
	}
	for m := 0; m < 8; m++ {
		var b bytes.Buffer
		if err := cfgOf(m).MD().Convert(src, &b); err != nil {
			return kit.Violf("convert-error", "%v", err)
		}
		out[m] = b.Bytes()
	}
	doc := base.MD().Parser().Parse(text.NewReader(src))
	ch, soft := chunks(doc, src)
	lastEdits = [3]int{}
	var xhtmlEdits [8]int
	for m := 0; m < 8; m++ {
		if m&1 == 0 {
			n, err := relXHTML(out[m], out[m|1])
			if err != nil {
				return err
			}
			xhtmlEdits[m] = n
			lastEdits[0] += n
		}
		if m&2 == 0 {
			n, err := relHardWraps(out[m], out[m|2], m&1 != 0)
			if err != nil {
				return err
			}
			if n != soft {
				return kit.Violf("hardwraps-count", "the tree has %d rendered soft line breaks but HardWraps inserted %d <br> tags:\n without %q\n with    %q", soft, n, out[m], out[m|2])
			}
			lastEdits[1] += n
		}
		if m&4 == 0 {
			n, err := relUnsafe(out[m], out[m|4], ch)
			if err != nil {
				return err
			}
			lastEdits[2] += n
		}
	}
	// every void element written by the renderer carries ' />' under XHTML and none without
	for _, m := range []int{0, 2} {
		if xhtmlEdits[m] != xhtmlEdits[m|4] {
			return kit.Violf("xhtml-void-count", "XHTML rewrote %d void tags in safe mode but %d in unsafe mode", xhtmlEdits[m], xhtmlEdits[m|4])
		}
		if _, toks, err := oracle.ParseStrict(out[m]); err == nil {
			for _, t := range toks {
				if t.Kind == oracle.TokStart && t.SelfClose {
					return kit.Violf("xhtml-off-selfclosing", "<%s /> without XHTML: %q", t.Name, out[m])
				}
			}
		}
		if _, toks, err := oracle.ParseStrict(out[m|1]); err == nil {
			for _, t := range toks {
				if t.Kind == oracle.TokStart && oracle.VoidTags[t.Name] && !t.SelfClose {
					return kit.Violf("xhtml-void-not-closed", "<%s> not written as <%s /> under XHTML: %q", t.Name, t.Name, out[m|1])
				}
			}
		}
	}
	return nil
}

func TestKnown(t *testing.T)  { kit.RunKnown(t) }
func TestReplay(t *testing.T) { kit.RunReplay(t) }

var c10Soup = &gen.Profile{Name: "c10", Extra: []string{"  \n", "\\\n", "\n", "\n", "![a\nb](u)", "![a  \nb](u)", "<br>", "<hr>", "<img src=x>", "<b>", "</b>", "<!-- c -->", "<div>\n", "</div>\n", "\n\n", "[a](javascript:x)", "[a](javascript:x \"t\")", "![a](vbscript:x 't')", "[a][d]\n\n[d]: data:text/html,x \"t\"\n", "[a](file:///x (t))", "[a](<javascript:x> \"t\")", "[*a*](javascript:x \"t\") b", "![a](vbscript:x)", "<javascript:x>", "[a](data:text/html,x)", "[a](data:image/png;base64,x)", "[a](file:///x)", "- [ ] ", "- [x] ", "[^1]", "[^1]: n\n", "|a|b|\n|:-|-:|\n|c|d|\n", "***\n", "`a\nb`", "*a\nb*", "[a\nb](u)", "\x00", "<p\x00>\n", "[a\n](u)", "a\n](u)", "*a\n*", "**a\n**", "~~a\n~~", "[a\n][r]\n\n[r]: /u\n", "![a\n](u)", "`a\n`", "a\n<b>", "a\n[^1]", "a\n![i](u)", "a\n<http://x.y>"}}

func TestOptions(t *testing.T) {
	kit.Rapid(t, "options", 150000, 6000000, func(t *rapid.T) {
		cfg := gen.DrawConfig(t, gen.ConfigOpts{PinAlign: true})
		cfg.XHTML, cfg.HardWraps, cfg.Unsafe = false, false, false
		if cfg.CJK != 0 {
			cfg.CJK = 4 // escaped space only: line-break suppression off
		}
		if cfg.HasTable() && cfg.TableAlign != 1 && cfg.TableAlign != 2 {
			cfg.TableAlign = 1
		}
		var src []byte
		var class string
		if rapid.Bool().Draw(t, "kind") {
			src, class = gen.Soup(t, c10Soup, kit.Pick(30, 80), "s"), "c10soup"
		} else {
			src, class = gen.Doc(t, gen.Any, kit.Pick(30, 80), "d")
		}
		c := kit.NewCase("options", cfg.String()).B("src", src)
		lastEdits = [3]int{}
		if kit.Check(t, c) {
			kit.R.Class("gen:" + class)
			if lastEdits[0]+lastEdits[1]+lastEdits[2] > 0 {
				kit.R.NonTrivial(c)
			}
			if lastEdits[0] > 0 {
				kit.R.Class("changed-by:xhtml")
			}
			if lastEdits[1] > 0 {
				kit.R.Class("changed-by:hardwraps")
			}
			if lastEdits[2] > 0 {
				kit.R.Class("changed-by:unsafe")
			}
		}
	})
}

// TestOptionsConstructs runs the option cube on the construct-adjacency documents.
func TestOptionsConstructs(t *testing.T) {
	cfgs := []gen.Config{{}, {GFM: true, DefList: true, Footnote: true, Typo: true, TableAlign: 1, AutoID: true, Attr: true}}
	n := gen.EnumConstructDocs(kit.Thorough(), func(idx int, doc []byte) {
		if !kit.Mine(idx) {
			return
		}
		for _, cfg := range cfgs {
			c := kit.NewCase("options", cfg.String()).B("src", doc)
			lastEdits = [3]int{}
			if kit.Check(t, c) {
				kit.R.Class("gen:exhaustive-constructs")
				if lastEdits[0]+lastEdits[1]+lastEdits[2] > 0 {
					kit.R.NonTrivial(c)
				}
			}
		}
	})
	kit.R.Note("exhaustive_constructs", n)
}
