package c02

import (
	"bytes"
	"strings"
	"testing"

	"github.com/yuin/goldmark/ast"
	"github.com/yuin/goldmark/text"
	"pgregory.net/rapid"

	"verif/gen"
	"verif/kit"
)

// Reference reading of the tail of an inline link, "(" destination title? ")" (CommonMark 0.31.2, section 6.3),
// for tails on one line without ASCII control characters, and a generator of tail look-alikes. The oracle decides
// whether "[zzn]" + tail is a link and, if so, which raw destination and title it has.

func isASCIIPunct(c byte) bool { return isPunctByte(c) }

// refLinkTail parses s (which starts with '(') and returns ok, the raw destination, the raw title (hasTitle) and
// the number of bytes consumed.
func refLinkTail(s string) (ok bool, dest, title string, hasTitle bool, consumed int) {
	ws := func(i int) int {
		for i < len(s) && (s[i] == ' ' || s[i] == '\t') {
			i++
		}
		return i
	}
	if len(s) == 0 || s[0] != '(' {
		return
	}
	i := ws(1)
	if i < len(s) && s[i] == '<' {
		j := i + 1
		for {
			if j >= len(s) {
				return
			}
			c := s[j]
			if c == '\\' && j+1 < len(s) && isASCIIPunct(s[j+1]) {
				j += 2
			} else if c == '>' {
				dest = s[i+1 : j]
				i = j + 1
				break
			} else if c == '<' {
				return
			} else {
				j++
			}
		}
	} else {
		j, depth := i, 0
	bare:
		for j < len(s) {
			c := s[j]
			switch {
			case c == '\\' && j+1 < len(s) && isASCIIPunct(s[j+1]):
				j += 2
			case c == '(':
				depth++
				j++
			case c == ')':
				if depth == 0 {
					break bare
				}
				depth--
				j++
			case c == ' ' || c == '\t':
				break bare
			default:
				j++
			}
		}
		if depth != 0 {
			return
		}
		dest = s[i:j]
		i = j
	}
	i2 := ws(i)
	if i2 < len(s) && i2 > i && (s[i2] == '"' || s[i2] == '\'' || s[i2] == '(') {
		opener, closer := s[i2], s[i2]
		if opener == '(' {
			closer = ')'
		}
		j := i2 + 1
		for {
			if j >= len(s) {
				return
			}
			c := s[j]
			if c == '\\' && j+1 < len(s) && isASCIIPunct(s[j+1]) {
				j += 2
			} else if c == closer {
				title, hasTitle = s[i2+1:j], true
				j++
				break
			} else if opener == '(' && c == '(' {
				return
			} else {
				j++
			}
		}
		i = ws(j)
	} else {
		i = i2
	}
	if i < len(s) && s[i] == ')' {
		return true, dest, title, hasTitle, i + 1
	}
	return false, "", "", false, 0
}

func linkTailOracle(c *kit.Case) error {
	tail := string(c.Bytes["tail"])
	ok, dest, title, hasTitle, _ := refLinkTail(tail)
	src := "[zzn]" + tail + "\n"
	doc := (gen.Config{Unsafe: true}).MD().Parser().Parse(text.NewReader([]byte(src)))
	var link *ast.Link
	_ = ast.Walk(doc, func(n ast.Node, entering bool) (ast.WalkStatus, error) {
		if l, isLink := n.(*ast.Link); isLink && entering && link == nil {
			link = l
		}
		return ast.WalkContinue, nil
	})
	switch {
	case ok && link == nil:
		return kit.Violf("link-tail", "%q is an inline link (destination %q, title %q/%v by the reference reading) but was not parsed as one", src, dest, title, hasTitle)
	case !ok && link != nil:
		return kit.Violf("link-tail", "%q is no inline link by the reference reading but was parsed as one (destination %q, title %q)", src, link.Destination, link.Title)
	case ok:
		if !bytes.Equal(link.Destination, []byte(dest)) || !bytes.Equal(link.Title, []byte(title)) || (link.Title != nil) != hasTitle && !(hasTitle && title == "") {
			return kit.Violf("link-tail", "%q: destination %q title %q, the reference reading gives %q and %q", src, link.Destination, link.Title, dest, title)
		}
	}
	return nil
}

var tailToks = []string{"/u", "a", "b", "x", "<", ">", "<a>", "<a b>", "<>", "(", ")", "\\(", "\\)", "\\<", "\\>", "\\\\", " ", " ", "\t", "\"t\"", "'t'", "(t)", "\"", "'", "\\\"", "\\'", "\"t u\"", "'(t)'", "(\"t\")", "&amp;", "%20", "é", "*", "`"}

func TestLinkTail(t *testing.T) {
	kit.Rapid(t, "link-tail", 150000, 8000000, func(t *rapid.T) {
		idx := rapid.SliceOfN(rapid.IntRange(0, len(tailToks)-1), 0, 7).Draw(t, "toks")
		var sb strings.Builder
		sb.WriteByte('(')
		for _, i := range idx {
			sb.WriteString(tailToks[i])
		}
		if rapid.IntRange(0, 3).Draw(t, "close") != 0 {
			sb.WriteByte(')')
		}
		if rapid.IntRange(0, 3).Draw(t, "more") == 0 {
			sb.WriteString(rapid.SampledFrom([]string{" x", ")", "\")", "')", ">)", " \"t\")"}).Draw(t, "trail"))
		}
		tail := sb.String()
		if strings.Contains(tail, "`") && strings.Count(tail, "`")%2 == 0 {
			return // a code span would take precedence over what it covers
		}
		c := kit.NewCase("link-tail", "unsafe").B("tail", []byte(tail))
		if kit.Check(t, c) {
			ok, _, _, _, _ := refLinkTail(tail)
			kit.R.Class("link-tail", map[bool]string{true: "link-tail:link", false: "link-tail:no-link"}[ok])
			kit.R.NonTrivial(c)
		}
	})
}
