package c02

import (
	"fmt"
	"strings"
)

// ---------------- serialiser: model -> markdown, with spelling choices ----------------

type ln struct {
	s    string
	sc   int  // leading chars that are purely structural (markers/indentation): spaces in there may be respelled with tabs
	lazy bool // paragraph continuation text starting with a letter: enclosing containers may omit their prefix
	// blank: a separator line between blocks; a line holding only spaces or tabs is just as blank (CommonMark 2.1),
	// whatever its width, so the enclosing serialisers spell it with any amount of white space
	blank bool
	// icblank: an empty line of an indented code block spelled as a lone tab
	icblank bool
}

// blankSpelling spells a blank separator line whose structural prefix is w columns wide.
func (z *Z) blankSpelling(w int) string {
	switch z.s.Intn(4) {
	case 0:
		return ""
	case 1:
		z.note("blank-line-with-spaces")
		return sp(1 + z.s.Intn(w+3))
	case 2:
		if w == 0 && z.tabs {
			z.note("blank-line-with-tab")
			return []string{"\t", " \t", "\t ", "  \t  "}[z.s.Intn(4)]
		}
	}
	return sp(z.s.Intn(2) * w)
}

var tabMode = 0 // 0 all, 1 only runs starting at column 0, 2 only runs right after '>', 3 only runs right after a list marker

type Z struct {
	extraParas     map[int][]Block // paragraphs the serialiser added in front of top-level block k (near-miss title lines)
	forceSpaceHard bool
	s              Src
	tabs           bool
	lazy           bool
	extra          bool // allow 0-3 extra indentation
	choices        map[string]int
}

func (z *Z) note(k string) {
	if z.choices != nil {
		z.choices[k]++
	}
}

func sp(n int) string { return strings.Repeat(" ", n) }

func (z *Z) pieces(ps []Piece) string {
	var sb strings.Builder
	for _, p := range ps {
		sb.WriteString(p.Src)
	}
	return sb.String()
}

func (z *Z) labelVariant(lab string, allowWS, allowNL bool) string {
	v := caseVariant(z.s, lab)
	if allowWS && coin(z.s, 1, 2) {
		k := 3
		if allowNL {
			k = 4
		}
		// every gap gets its own spelling (a lone space may follow an irregular gap and vice versa)
		gaps := []string{"  ", " \t", "   ", "\n"}
		words := strings.Split(v, " ")
		var sb strings.Builder
		for i, w := range words {
			if i > 0 {
				if coin(z.s, 1, 3) {
					sb.WriteString(" ")
				} else {
					sb.WriteString(gaps[z.s.Intn(k)])
				}
			}
			sb.WriteString(w)
		}
		v = sb.String()
		z.note("label-ws")
	}
	return v
}

func (z *Z) destTitle(d URL, t *Title) string {
	s := z.pieces(d.P)
	if t != nil {
		s += sp(1+z.s.Intn(2)) + z.pieces(t.P)
	}
	return s
}

func (z *Z) inl(in []Inline) string {
	var sb strings.Builder
	for _, x := range in {
		switch v := x.(type) {
		case Text:
			sb.WriteString(v.S)
		case Esc:
			sb.WriteString("\\" + string(v.C))
		case Ent:
			sb.WriteString(v.Src)
		case Emph:
			d := string("*_"[z.s.Intn(2)])
			z.note("emph" + d)
			sb.WriteString(d + z.inl(v.C) + d)
		case Strong:
			d := string("*_"[z.s.Intn(2)])
			z.note("strong" + d)
			sb.WriteString(d + d + z.inl(v.C) + d + d)
		case Code:
			n := 1
			if strings.Contains(v.S, "`") {
				n = 2
			} else if coin(z.s, 1, 4) {
				n = 2
			}
			pad := ""
			if strings.HasPrefix(v.S, "`") || strings.HasSuffix(v.S, "`") ||
				(strings.HasPrefix(v.S, " ") && strings.HasSuffix(v.S, " ") && strings.TrimSpace(v.S) != "") {
				pad = " "
			} else if coin(z.s, 1, 5) && strings.TrimSpace(v.S) != "" {
				pad = " " // optional padding is stripped
			}
			sb.WriteString(strings.Repeat("`", n) + pad + v.S + pad + strings.Repeat("`", n))
		case Link:
			txt := z.inl(v.C)
			switch v.Form {
			case 0:
				sb.WriteString("[" + txt + "](" + sp(z.s.Intn(2)) + z.destTitle(v.Dest, v.Title) + sp(z.s.Intn(2)) + ")")
			case 1:
				sb.WriteString("[" + txt + "][" + z.labelVariant(v.Label, true, v.LabelNL) + "]")
				z.note("ref-full")
			case 2:
				sb.WriteString("[" + txt + "][]")
				z.note("ref-collapsed")
			case 3:
				sb.WriteString("[" + txt + "]")
				z.note("ref-shortcut")
			}
		case Image:
			sb.WriteString("![" + z.inl(v.C) + "](" + z.destTitle(v.Dest, v.Title) + ")")
		case Auto:
			sb.WriteString("<" + v.URL + ">")
		case Mail:
			sb.WriteString("<" + v.Addr + ">")
		case Raw:
			sb.WriteString(v.S)
		case NotLink:
			sb.WriteString(v.Src)
		case Soft:
			sb.WriteString(sp(z.s.Intn(2)) + "\n") // zero or one trailing space: still a soft break
		case NearMiss:
			sb.WriteString("\x00NM" + v.S)
		case BS:
			sb.WriteString("\\")
			z.forceSpaceHard = true
			z.note("literal-backslash-before-hard-break")
		case Hard:
			if !z.forceSpaceHard && coin(z.s, 1, 2) {
				sb.WriteString("\\\n")
				z.note("hard-backslash")
			} else {
				sb.WriteString(sp(2+z.s.Intn(3)) + "\n")
				z.note("hard-spaces")
				z.forceSpaceHard = false
			}
		}
	}
	return sb.String()
}

func startsWithLetter(s string) bool {
	s = strings.TrimLeft(s, " ")
	if s == "" {
		return false
	}
	c := s[0]
	return c >= 'a' && c <= 'z' || c >= 'A' && c <= 'Z'
}

func (z *Z) ind3(ok bool) string {
	if ok && z.extra && coin(z.s, 1, 3) {
		z.note("extra-indent")
		return sp(1 + z.s.Intn(3))
	}
	return ""
}

// piHazard: the look-alike '<?>' is only plain text while no '?>' follows it in the same block.
func piHazard(txt string) {
	if i := strings.Index(txt, "<?>"); i >= 0 && strings.Contains(txt[i+3:], "?>") {
		panic("pi hazard")
	}
}

func (z *Z) paraLines(in []Inline, extraOK bool) []ln {
	txt := z.inl(in)
	piHazard(txt)
	parts := strings.Split(txt, "\n")
	var out []ln
	for i, p := range parts {
		ind := ""
		if strings.HasPrefix(p, "\x00NM") {
			// near-miss: five or more columns, so that even '>' without its optional space leaves four
			p = strings.TrimLeft(p[3:], " ")
			ind = sp(5 + z.s.Intn(3))
			z.note("near-miss-line")
			out = append(out, ln{s: ind + p, sc: len(ind)})
			continue
		}
		if i == 0 {
			ind = z.ind3(extraOK)
		} else if coin(z.s, 1, 3) {
			ind = sp(1 + z.s.Intn(7)) // continuation lines may be indented arbitrarily
			z.note("cont-indent")
		}
		out = append(out, ln{s: ind + p, sc: len(ind), lazy: i > 0 && startsWithLetter(p) && !looksLikeOrdered(p)})
	}
	return out
}

func looksLikeOrdered(s string) bool { return false } // words never start with a digit

func (z *Z) hr(afterPara bool, avoid byte, extraOK bool) ln {
	for {
		c := "*-_"[z.s.Intn(3)]
		if c == avoid || (afterPara && c == '-') {
			continue
		}
		n := 3 + z.s.Intn(3)
		var sb strings.Builder
		sb.WriteString(z.ind3(extraOK))
		gap := sp(z.s.Intn(3))
		for i := 0; i < n; i++ {
			if i > 0 {
				sb.WriteString(gap)
			}
			sb.WriteByte(c)
		}
		sb.WriteString(sp(z.s.Intn(3)))
		z.note("hr" + string(c))
		return ln{s: sb.String()}
	}
}

func (z *Z) heading(h Heading, afterPara bool, extraOK bool) []ln {
	txt := z.inl(h.C)
	piHazard(txt)
	multi := strings.Contains(txt, "\n")
	if h.Level <= 2 && !afterPara && (multi || coin(z.s, 1, 2)) {
		z.note("setext")
		ls := z.paraLines(h.C, extraOK)
		for i := range ls {
			ls[i].lazy = false // keep heading text lines marked (laziness + setext is not licensed)
		}
		c := "=-"[h.Level-1]
		ls = append(ls, ln{s: z.ind3(extraOK) + strings.Repeat(string(c), 1+z.s.Intn(5)) + sp(z.s.Intn(3))})
		return ls
	}
	if multi {
		panic("multi-line ATX")
	}
	z.note("atx")
	s := z.ind3(extraOK) + strings.Repeat("#", h.Level) + sp(1+z.s.Intn(3)) + txt
	if coin(z.s, 1, 3) {
		s += sp(1+z.s.Intn(2)) + strings.Repeat("#", 1+z.s.Intn(8)) + sp(z.s.Intn(3))
		z.note("atx-closing")
	}
	return []ln{{s: s}}
}

func maxRun(lines []string, c byte) int {
	m := 0
	for _, l := range lines {
		r := 0
		for i := 0; i < len(l); i++ {
			if l[i] == c {
				r++
				if r > m {
					m = r
				}
			} else {
				r = 0
			}
		}
	}
	return m
}

func (z *Z) fcode(f FCode, extraOK bool) []ln {
	c := byte('`')
	if coin(z.s, 1, 2) {
		c = '~'
	}
	z.note("fence" + string(c))
	n := 3 + z.s.Intn(3)
	if m := maxRun(f.Lines, c); m >= n {
		n = m + 1
	}
	ind := 0
	if extraOK && z.extra && coin(z.s, 1, 3) {
		ind = 1 + z.s.Intn(3)
		z.note("fence-indent")
	}
	info := z.pieces(f.Info)
	open := sp(ind) + strings.Repeat(string(c), n)
	if info != "" {
		open += sp(z.s.Intn(2)) + info + sp(z.s.Intn(2))
	}
	out := []ln{{s: open, sc: ind}}
	for _, l := range f.Lines {
		if l == "" && coin(z.s, 1, 2) {
			out = append(out, ln{s: ""})
		} else if l == "" && ind > 0 && coin(z.s, 1, 2) {
			// up to N columns of indentation are removed from each content line: fewer than N spaces are all removed
			out = append(out, ln{s: sp(z.s.Intn(ind + 1))})
			z.note("fence-short-blank-content-line")
		} else {
			out = append(out, ln{s: sp(ind) + l, sc: ind})
		}
	}
	cind := 0
	if extraOK && z.extra {
		cind = z.s.Intn(4)
	}
	out = append(out, ln{s: sp(cind) + strings.Repeat(string(c), n+z.s.Intn(3)) + sp(z.s.Intn(3)), sc: cind})
	return out
}

func (z *Z) icode(c ICode) []ln {
	var out []ln
	for _, l := range c.Lines {
		if l == "" && z.tabs && coin(z.s, 1, 3) {
			// white space reaching column 4 at most: nothing is left of the line
			// (a lone tab is at most 4 columns wide wherever it starts; at column 0 spaces may precede it, see doc)
			out = append(out, ln{s: "\t", icblank: true})
			z.note("icode-blank-line-with-tab")
		} else if l == "" {
			out = append(out, ln{s: sp(z.s.Intn(5))})
		} else {
			out = append(out, ln{s: "    " + l, sc: 4})
		}
	}
	return out
}

func (z *Z) quote(q Quote, extraOK bool) []ln {
	inner := z.blocks(q.C, false, true, 0)
	var out []ln
	for _, l := range inner {
		if l.lazy && z.lazy && coin(z.s, 1, 2) {
			z.note("lazy-quote")
			out = append(out, l)
			continue
		}
		p := z.ind3(extraOK) + ">"
		if l.s == "" && l.blank {
			p += sp(z.s.Intn(5))
		} else if l.s == "" {
			p += sp(z.s.Intn(2))
		} else if l.s[0] == ' ' || l.s[0] == '\t' || coin(z.s, 3, 4) {
			p += " "
		} else {
			z.note("quote-nospace")
		}
		out = append(out, ln{s: p + l.s, sc: len(p) + l.sc})
	}
	if q.Trail {
		out = append(out, ln{s: z.ind3(extraOK) + ">" + sp(z.s.Intn(3))})
		z.note("quote-trailing-marker-line")
	}
	return out
}

func (z *Z) list(l List, extraOK bool, avoidMarker byte) []ln {
	base := z.ind3(extraOK)
	var mk byte
	for {
		if l.Ordered {
			mk = ".)"[z.s.Intn(2)]
		} else {
			mk = "-+*"[z.s.Intn(3)]
		}
		if mk != avoidMarker {
			break
		}
	}
	z.note("marker" + string(mk))
	var out []ln
	num := l.Start
	for i, it := range l.Items {
		marker := string(mk)
		if l.Ordered {
			marker = fmt.Sprintf("%d%c", num, mk)
			if i == 0 && coin(z.s, 1, 4) && len(marker) < 8 {
				marker = "0" + marker
				z.note("leading-zero")
			}
			if coin(z.s, 1, 2) {
				num++
			} else {
				num = z.s.Intn(50)
			}
		}
		if i > 0 && !l.Tight {
			out = append(out, ln{s: ""})
		}
		if len(it) == 0 {
			out = append(out, ln{s: base + marker})
			continue
		}
		gap := 1 + z.s.Intn(4)
		if _, ok := it[0].(ICode); ok {
			gap = 1 // the item begins with indented code: one space belongs to the marker, the code's own four follow
			z.note("item-begins-with-indented-code")
		}
		if gap > 1 {
			z.note("marker-gap")
		}
		w := len(marker) + gap
		inner := z.blocks(it, l.Tight, false, mk)
		if f, ok := it[len(it)-1].(FCode); ok && l.Tight && i < len(l.Items)-1 && len(inner) >= 2 && coin(z.s, 1, 3) {
			// a fenced block that is the last block of an item may stay unclosed: it ends with the item. Its blank
			// content lines are content, not separators between the items (the list stays tight)
			_ = f
			inner = inner[:len(inner)-1]
			z.note("fence-unclosed-at-item-end")
		}
		emptyFirst := false
		if _, isCode := it[0].(ICode); i > 0 && !isCode && coin(z.s, 1, 6) {
			// an item may begin with one blank line: the marker stands alone and the content starts on the next
			// line at the column after "marker + one space" (not for the first item: an empty item cannot
			// interrupt a paragraph in front of the list)
			emptyFirst = true
			w = len(marker) + 1
			out = append(out, ln{s: base + marker + sp(z.s.Intn(3))})
			z.note("item-begins-with-blank-line")
		}
		for j, x := range inner {
			switch {
			case j == 0 && emptyFirst:
				out = append(out, ln{s: base + sp(w) + x.s, sc: len(base) + w + x.sc})
			case j == 0:
				out = append(out, ln{s: base + marker + sp(gap) + x.s, sc: len(base) + w + x.sc})
			case x.s == "" && x.blank:
				out = append(out, ln{s: z.blankSpelling(len(base) + w)})
			case x.s == "":
				out = append(out, ln{s: sp(z.s.Intn(2) * (len(base) + w))})
			case x.lazy && z.lazy && coin(z.s, 1, 2):
				z.note("lazy-item")
				out = append(out, x)
			default:
				out = append(out, ln{s: base + sp(w) + x.s, sc: len(base) + w + x.sc})
			}
		}
	}
	return out
}

// blocks serialises a block sequence. tight: no blank lines at all. extraOK: blocks may take 0-3 extra indentation.
func (z *Z) blocks(bs []Block, tight bool, extraOK bool, marker byte) []ln {
	var out []ln
	for i, b := range bs {
		afterPara := false
		ex := extraOK
		if marker != 0 && i == 0 {
			ex = false // first block of a list item: its indentation is the marker gap
		} else if marker != 0 {
			ex = true
		}
		if i > 0 {
			if _, ok := bs[i-1].(List); ok {
				ex = false // extra indentation after a list could reach the item's content column
			}
		}
		if i > 0 {
			d := direct(bs[i-1], b)
			if h, ok := b.(Heading); ok && strings.Contains(renderInl(h.C), "\n") {
				if _, ok := bs[i-1].(Para); ok {
					d = false // multi-line heading text needs the Setext form, which cannot directly follow a paragraph
				}
			}
			if tight {
				if !d {
					panic("tight adjacency")
				}
			} else if !d || marker != 0 || coin(z.s, 1, 2) {
				out = append(out, ln{s: "", blank: true})
				if coin(z.s, 1, 5) {
					out = append(out, ln{s: "", blank: true})
				}
			} else {
				z.note("no-blank")
			}
			if _, ok := bs[i-1].(Para); ok && out[len(out)-1].s != "" {
				afterPara = true
			}
		}
		var avoid byte
		if marker != 0 && i == 0 {
			avoid = marker
		}
		switch v := b.(type) {
		case Para:
			out = append(out, z.paraLines(v.C, ex)...)
		case Heading:
			out = append(out, z.heading(v, afterPara, ex)...)
		case HR:
			out = append(out, z.hr(afterPara, avoid, ex))
		case ICode:
			out = append(out, z.icode(v)...)
		case FCode:
			out = append(out, z.fcode(v, ex)...)
		case Quote:
			out = append(out, z.quote(v, ex)...)
		case List:
			out = append(out, z.list(v, ex, avoid)...)
		case HTMLB:
			for _, l := range v.Lines {
				out = append(out, ln{s: l})
			}
		}
	}
	return out
}

// tabify respells structural spaces with tabs, preserving columns exactly.
func (z *Z) tabify(l ln) string {
	if !z.tabs || l.sc == 0 || !coin(z.s, 1, 2) {
		return l.s
	}
	var sb strings.Builder
	col := 0
	i := 0
	for i < len(l.s) {
		eligible := true
		if i < l.sc && l.s[i] == ' ' {
			switch tabMode {
			case 1:
				eligible = i == 0
			case 2:
				eligible = i > 0 && l.s[i-1] == '>'
			case 3:
				eligible = i > 0 && l.s[i-1] != '>' && l.s[i-1] != ' '
			case 4:
				eligible = i == 0 || l.s[i-1] == '>'
			}
		}
		if eligible && i < l.sc && l.s[i] == ' ' {
			j := i
			for j < l.sc && j < len(l.s) && l.s[j] == ' ' {
				j++
			}
			if j-i > 1 && coin(z.s, 1, 3) {
				// keep the first spaces of the run and write only its tail with tabs ("> " TAB "- a": the tab is
				// worth the two columns from 2 to 4)
				k := 1 + z.s.Intn(j-i-1)
				sb.WriteString(sp(k))
				col += k
				i += k
				z.note("tab-after-spaces")
			}
			end := col + (j - i)
			for {
				stop := col - col%4 + 4
				if stop <= end {
					sb.WriteByte('\t')
					col = stop
					z.note("tab")
				} else {
					break
				}
			}
			sb.WriteString(sp(end - col))
			col = end
			i = j
			continue
		}
		sb.WriteByte(l.s[i])
		if l.s[i] == '\t' {
			col = col - col%4 + 4
		} else {
			col++
		}
		i++
	}
	return sb.String()
}

func (z *Z) def(d Def, indentOK bool) []string {
	lab := z.labelVariant(d.Label, true, true)
	s := "[" + lab + "]:"
	if indentOK {
		s = sp(z.s.Intn(4)) + s
	}
	dest := z.pieces(d.Dest.P)
	if coin(z.s, 1, 4) && !strings.HasPrefix(dest, "<") { // "<?", "<!" ... on their own line would open an HTML block

		s += "\n" + sp(1+z.s.Intn(3)) + dest
		z.note("def-dest-nextline")
	} else {
		s += sp(z.s.Intn(3)) + dest
	}
	if d.Title != nil {
		// a title may run over several lines; they are lines of a paragraph, so their leading white space is not
		// part of the title (the expected value is the bare line ending)
		for i, p := range d.Title.P {
			if p.Src == " " && p.Val == " " && coin(z.s, 1, 4) {
				d.Title.P[i] = Piece{"\n" + sp(z.s.Intn(4)), "\n"}
				z.note("def-title-multiline")
			}
		}
		if coin(z.s, 1, 3) {
			s += "\n" + sp(z.s.Intn(3)) + z.pieces(d.Title.P)
			z.note("def-title-nextline")
		} else {
			s += sp(1+z.s.Intn(2)) + z.pieces(d.Title.P)
		}
	}
	return strings.Split(s, "\n")
}

func (z *Z) doc(d Doc) string {
	// top-level blocks, with definitions inserted as separate groups between blocks / at either end
	type group struct {
		lines []string
	}
	var groups [][]string
	var carry []Block
	flush := func() {
		if len(carry) > 0 {
			var ls []string
			for _, l := range z.blocks(carry, false, true, 0) {
				if l.blank && l.s == "" {
					ls = append(ls, z.blankSpelling(0))
					continue
				}
				if l.icblank && l.s == "\t" { // top level: the line starts at column 0, so up to 3 spaces in front of the tab still end at column 4
					ls = append(ls, sp(z.s.Intn(4))+"\t")
					continue
				}
				ls = append(ls, z.tabify(l))
			}
			groups = append(groups, ls)
			carry = nil
		}
	}
	slots := make([][]Def, len(d.Blocks)+1)
	for _, df := range d.Defs {
		k := z.s.Intn(len(slots))
		slots[k] = append(slots[k], df)
	}
	emit := func(k int) {
		if len(slots[k]) == 0 {
			return
		}
		flush()
		var ls []string
		for i, df := range slots[k] {
			if i > 0 && coin(z.s, 1, 2) {
				ls = append(ls, "")
			}
			afterList := false
			if k > 0 {
				_, afterList = d.Blocks[k-1].(List)
			}
			ls = append(ls, z.def(df, !afterList)...)
		}
		if last := slots[k][len(slots[k])-1]; last.Title == nil && coin(z.s, 1, 4) {
			// near miss: a title-like line followed by more text is not a title
			// but a paragraph of its own; the definition stays without title
			// (also when the text that follows looks like another definition: a definition cannot interrupt
			// the paragraph the title-like line has started)
			pseudo := []string{"\"abc\" def", "'abc' def", "(abc) def", "\"abc\" [x]", "\"a\" \"b\"", "\"abc\" [zzq]: /nowhere", "(abc) [zzq]: /nowhere 't'"}[z.s.Intn(7)]
			if z.extraParas == nil {
				z.extraParas = map[int][]Block{}
			}
			if coin(z.s, 1, 5) {
				// an unclosed title-like line followed by a definition-like line: two lines of one paragraph
				open := []string{"\"abc", "'abc def", "(abc"}[z.s.Intn(3)]
				second := []string{"[zzr]: /nowhere", "[zzr]: /nowhere \"t\"", "def"}[z.s.Intn(3)]
				ls = append(ls, sp(z.s.Intn(3))+open, sp(z.s.Intn(3))+second)
				z.extraParas[k] = append(z.extraParas[k], Para{[]Inline{Text{open}, Soft{}, Text{second}}})
				z.note("near-miss-title-unclosed")
			} else {
				ls = append(ls, sp(z.s.Intn(3))+pseudo)
				z.extraParas[k] = append(z.extraParas[k], Para{[]Inline{Text{pseudo}}})
			}
			z.note("near-miss-title-line")
		}
		groups = append(groups, ls)
	}
	for i, b := range d.Blocks {
		emit(i)
		// an indented code block or a list continuation must not be glued across a definition group: handled by blank lines
		carry = append(carry, b)
	}
	flush()
	// the closing fence may be omitted when the fenced block is the very last thing in the document
	// (the block then runs to the end of the document); a trailing blank content line would be lost
	// together with a missing final line ending, so such blocks keep their fence
	if n := len(d.Blocks); n > 0 && len(slots[n]) == 0 && len(groups) > 0 {
		if f, ok := d.Blocks[n-1].(FCode); ok && (len(f.Lines) == 0 || f.Lines[len(f.Lines)-1] != "") && coin(z.s, 1, 3) {
			g := groups[len(groups)-1]
			if len(g) >= 2 {
				groups[len(groups)-1] = g[:len(g)-1]
				z.note("fence-unclosed-at-eof")
			}
		}
	}
	emit(len(d.Blocks))
	var parts []string
	for _, g := range groups {
		parts = append(parts, strings.Join(g, "\n"))
	}
	s := strings.Join(parts, "\n\n")
	if coin(z.s, 3, 4) {
		s += "\n"
	} else {
		z.note("no-final-newline")
	}
	return s
}
