package c02

import (
	"fmt"
	"strconv"
	"strings"
)

// ---------------- generator ----------------

type G struct {
	s      Src
	nlabel int
	defs   []Def
}

var letters = "abcdefghijklmnopqrstuvwxyzABCDEFGHIJKLMNOPQRSTUVWXYZ"
var alnum = letters + "0123456789"

func (g *G) word() string {
	n := 1 + g.s.Intn(5)
	var sb strings.Builder
	sb.WriteByte(letters[g.s.Intn(len(letters))])
	for i := 1; i < n; i++ {
		sb.WriteByte(alnum[g.s.Intn(len(alnum))])
	}
	return sb.String()
}

// text: words separated by single spaces, optional inert punctuation after a word
func (g *G) text() Text {
	n := 1 + g.s.Intn(3)
	var sb strings.Builder
	for i := 0; i < n; i++ {
		if i > 0 {
			sb.WriteByte(' ')
		}
		sb.WriteString(g.word())
		if coin(g.s, 1, 6) {
			sb.WriteByte(".,;:?'"[g.s.Intn(6)])
		}
	}
	return Text{sb.String()}
}

const punct = "!\"#$%&'()*+,-./:;<=>?@[\\]^_`{|}~"

type entity struct{ src, exp string }

var entities = []entity{
	{"&amp;", "&"}, {"&lt;", "<"}, {"&gt;", ">"}, {"&quot;", "\""}, {"&copy;", "©"}, {"&auml;", "ä"},
	{"&Auml;", "Ä"}, {"&nbsp;", " "}, {"&ndash;", "–"}, {"&hearts;", "♥"}, {"&ne;", "≠"}, {"&frac34;", "¾"},
	{"&HilbertSpace;", "ℋ"}, {"&DifferentialD;", "ⅆ"}, {"&ClockwiseContourIntegral;", "∲"}, {"&ngE;", "≧̸"},
	{"&#35;", "#"}, {"&#1234;", "Ӓ"}, {"&#992;", "Ϡ"}, {"&#0;", "�"}, {"&#x22;", "\""}, {"&#XD06;", "ആ"},
	{"&#xcab;", "ಫ"}, {"&#65;", "A"}, {"&#065;", "A"}, {"&#0000065;", "A"}, {"&#x41;", "A"}, {"&#x0041;", "A"},
	{"&#42;", "*"}, {"&#95;", "_"}, {"&#96;", "`"}, {"&#91;", "["}, {"&#60;", "<"}, {"&#10;", "\n"}, {"&#9;", "\t"}, {"&#32;", " "},
	// the digit limits (1-7 decimal, 1-6 hexadecimal digits): one digit more is not a character reference, wherever it is written
	{"&#x000041;", "A"}, {"&#x0000041;", "&#x0000041;"}, {"&#00000065;", "&#00000065;"}, {"&#X0000022;", "&#X0000022;"}, {"&nosuchname;", "&nosuchname;"},
}

// numEnt is a numeric character reference to a code point drawn from the whole range (decimal or hexadecimal,
// either letter case, optional leading zeros): the low byte of the code point says nothing about the character.
func (g *G) numEnt() Ent {
	var r rune
	switch g.s.Intn(4) {
	case 0: // code points whose low byte is one of " & < > ' (0x22 0x26 0x3C 0x3E 0x27)
		r = rune(1+g.s.Intn(0x10FF))<<8 | rune([]byte{0x22, 0x26, 0x3C, 0x3E, 0x27}[g.s.Intn(5)])
	case 1:
		r = rune(0x80 + g.s.Intn(0x800))
	case 2:
		r = rune(0x800 + g.s.Intn(0xF800))
	default:
		r = rune(0x10000 + g.s.Intn(0x100000))
	}
	exp := string(r)
	if r >= 0xD800 && r <= 0xDFFF {
		exp = "\uFFFD"
	}
	var src string
	switch g.s.Intn(4) {
	case 0:
		src = "&#" + strconv.Itoa(int(r)) + ";"
	case 1:
		src = "&#" + strings.Repeat("0", g.s.Intn(3)) + strconv.Itoa(int(r)) + ";"
	case 2:
		src = "&#x" + strconv.FormatInt(int64(r), 16) + ";"
	default:
		src = "&#X" + strings.ToUpper(strconv.FormatInt(int64(r), 16)) + ";"
	}
	if len(src) > 10 { // at most 7 decimal / 6 hexadecimal digits
		src = "&#x" + strconv.FormatInt(int64(r), 16) + ";"
	}
	return Ent{src, exp}
}

func (g *G) ent() Ent {
	if g.s.Intn(4) == 0 {
		return g.numEnt()
	}
	for {
		e := entities[g.s.Intn(len(entities))]
		if e.exp == "\n" || e.exp == "\t" || e.exp == " " { // keep whitespace-producing refs for URLs/titles only
			continue
		}
		return Ent{e.src, e.exp}
	}
}

type ictx struct {
	para     bool // top level of a paragraph: near-miss continuation lines are allowed
	depth    int
	inLink   bool
	inImage  bool
	oneLine  bool // no soft/hard breaks (ATX heading)
	noBreaks bool
	noRaw    bool
}

// classes for adjacency decisions
func startsAlnum(x Inline) bool {
	switch v := x.(type) {
	case Text:
		return true
	case Ent, Esc, Code, Link, Image, Auto, Mail, Raw, Emph, Strong, NotLink:
		_ = v
		return false
	}
	return false
}
func endsAlnumOrInert(x Inline) bool { _, ok := x.(Text); return ok }
func isEmph(x Inline) bool {
	switch x.(type) {
	case Emph, Strong:
		return true
	}
	return false
}
func isLinkish(x Inline) bool {
	switch x.(type) {
	case Link:
		return true
	}
	return false
}

func (g *G) inlines(c ictx, max int) []Inline {
	n := 1 + g.s.Intn(max)
	var out []Inline
	for i := 0; i < n; i++ {
		x := g.inline(c, len(out) == 0)
		if len(out) > 0 {
			prev := out[len(out)-1]
			needSpace := false
			_, pt := prev.(Text)
			_, xt := x.(Text)
			if pt && xt {
				needSpace = true
			}
			if isEmph(prev) && (startsAlnum(x) || isEmph(x)) {
				needSpace = true
			}
			if isEmph(x) && (endsAlnumOrInert(prev) || isEmph(prev)) {
				needSpace = true
			}
			if _, ok := prev.(Code); ok {
				if _, ok2 := x.(Code); ok2 {
					needSpace = true
				}
			}
			if isLinkish(prev) && (isLinkish(x)) {
				needSpace = true
			}
			if l, ok := prev.(Link); ok && l.Form != 0 {
				// after a reference-style link the next char must not be '[' or '('
				if _, ok := x.(Link); ok {
					needSpace = true
				}
				if _, ok := x.(NotLink); ok {
					needSpace = true
				}
			}
			if e, ok := prev.(Esc); ok && e.C == '!' {
				// "\!" followed by "[" is fine (escaped), nothing to do
				_ = e
			}
			// separator choice
			brk := 0
			if !c.oneLine && !c.noBreaks && coin(g.s, 1, 4) {
				brk = 1 + g.s.Intn(2) // 1 soft, 2 hard
			}
			// a break must not be followed by Raw (could open/interrupt as HTML block) and not by Auto-looking things that are fine
			if _, ok := x.(Raw); ok {
				brk = 0
			}
			switch {
			case brk == 1 && c.para && c.depth == 0 && coin(g.s, 1, 5):
				// a continuation line that looks like a block start but is indented too far
				nm := []string{"# x", "## y", "> x", "- x", "+ x", "* x", "1. x", "10) x", "===", "---", "~~~", "#", "-"}
				out = append(out, Soft{}, NearMiss{nm[g.s.Intn(len(nm))]}, Text{" "})
				nearMissCount++
			case brk == 1:
				out = append(out, Soft{})
			case brk == 2:
				if _, ok := prev.(Text); ok && coin(g.s, 1, 4) {
					// "word\" + two spaces + newline: a literal backslash, then a hard break
					out = append(out, BS{})
				}
				out = append(out, Hard{})
			case needSpace || coin(g.s, 1, 3):
				// explicit space: attach to a Text so serialisation is simple
				out = append(out, Text{" "})
			}
		}
		out = append(out, x)
	}
	return mergeTexts(out)
}

func mergeTexts(in []Inline) []Inline {
	var out []Inline
	for _, x := range in {
		if t, ok := x.(Text); ok && len(out) > 0 {
			if p, ok := out[len(out)-1].(Text); ok {
				out[len(out)-1] = Text{p.S + t.S}
				continue
			}
		}
		out = append(out, x)
	}
	return out
}

func (g *G) inline(c ictx, first bool) Inline {
	for {
		k := g.s.Intn(14)
		switch k {
		case 0, 1, 2:
			return g.text()
		case 3:
			return Esc{punct[g.s.Intn(len(punct))]}
		case 4:
			return g.ent()
		case 5, 6:
			if c.depth >= 3 {
				continue
			}
			cc := c
			cc.depth++
			ch := g.emphChildren(cc)
			if k == 5 {
				return Emph{ch}
			}
			return Strong{ch}
		case 7:
			return g.code(!c.oneLine)
		case 8:
			if c.inLink || c.depth >= 3 {
				continue
			}
			cc := c
			cc.depth++
			cc.inLink = true
			return g.link(cc)
		case 9:
			if c.inImage || c.depth >= 3 {
				continue
			}
			cc := c
			cc.depth++
			cc.inImage = true
			cc.inLink = true // keep alt simple: no links inside alt
			cc.noBreaks = true
			cc.noRaw = true
			t := g.titleOpt()
			return Image{g.inlines(cc, 3), g.url(), t}
		case 10:
			if c.inLink && !c.inImage {
				continue
			}
			if c.inImage {
				altAutoCount++
			}
			if g.s.Intn(8) == 0 {
				// scheme length at the limits: 2 and 32 characters make an autolink, 1 and 33 do not
				n := []int{1, 2, 32, 33}[g.s.Intn(4)]
				return Auto{"s" + strings.Repeat("c", n-1) + ":" + g.word(), n == 1 || n == 33}
			}
			return Auto{g.autoURL(), false}
		case 11:
			if c.inLink && !c.inImage {
				continue
			}
			return Mail{g.word() + "@" + g.word() + "." + g.word()}
		case 12:
			if first || c.noRaw {
				continue
			}
			raws := []string{"<b>", "</b>", "<span class=\"x y\">", "<i data-a='b'>", "<br/>", "<x-y z>", "<!-- c -->", "<?p q?>", "<![CDATA[a]]>", "<!DOCTYPE x>", "<a\nhref=\"u\">",
				// raw HTML that runs over two or three lines (every line of it is part of the node)
				"<a b=\"\ufffd\">", "<i title='\ufffd x'>", "<!-- c\nd -->", "<!-- c\nd\ne -->", "<?p\nq?>", "<![CDATA[a\nb]]>", "<!X\ny>", "<i\ndata-a='b'\nclass=\"c\">"}
			r := raws[g.s.Intn(len(raws))]
			if c.oneLine && strings.Contains(r, "\n") {
				continue
			}
			if !c.inLink && g.s.Intn(4) == 0 {
				// link look-alikes just outside the rules ([zzn] is never defined): an unescaped '<' inside a <...>
				// destination, a space in a bare destination, text after the title, a space before '(', text after
				// a <...> destination
				nl := notLinks[g.s.Intn(len(notLinks))]
				notLinkCount++
				return NotLink{nl[0], nl[1]}
			}
			return Raw{r}
		case 13:
			return g.text()
		}
	}
}

// children of emphasis: must start and end with an alnum Text so the delimiters are pure opener/closer
func (g *G) emphChildren(c ictx) []Inline {
	mid := []Inline{}
	if coin(g.s, 1, 2) {
		mid = g.inlines(c, 3)
	}
	out := []Inline{Text{g.word()}}
	if len(mid) > 0 {
		// ensure separation rules with the boundary words
		if startsAlnum(mid[0]) || isEmph(mid[0]) {
			out = append(out, Text{" "})
		}
		out = append(out, mid...)
		last := mid[len(mid)-1]
		if endsAlnumOrInert(last) || isEmph(last) {
			out = append(out, Text{" "})
		}
		out = append(out, Text{g.word()})
	}
	return mergeTexts(out)
}

func (g *G) code(allowNL bool) Code {
	n := 1 + g.s.Intn(4)
	var sb strings.Builder
	for i := 0; i < n; i++ {
		switch g.s.Intn(8) {
		case 0:
			sb.WriteString("`")
			sb.WriteString(g.word()) // keep backtick runs of length 1
		case 1:
			sb.WriteString(" ")
		case 2:
			sb.WriteString(string("*_[]<>&\\"[g.s.Intn(8)]))
			if coin(g.s, 1, 10) {
				sb.WriteString("\x00")
				nulCount++
			}
		default:
			sb.WriteString(g.word())
		}
	}
	s := sb.String()
	if strings.TrimSpace(s) == "" {
		s = g.word()
	}
	if allowNL && coin(g.s, 1, 4) {
		// a line ending inside the code span (it reads as a space): only where a letter follows, so that the
		// continuation line cannot look like a block start
		for i := 1; i+1 < len(s); i++ {
			if s[i] == ' ' && s[i-1] != ' ' && (s[i+1]|0x20) >= 'a' && (s[i+1]|0x20) <= 'z' {
				s = s[:i] + "\n" + s[i+1:]
				codeNLCount++
				break
			}
		}
	}
	return Code{s}
}

var schemes = []string{"http", "https", "ftp", "mailto", "irc", "made-up+scheme.x", "a1"}

func (g *G) autoURL() string {
	s := schemes[g.s.Intn(len(schemes))] + ":"
	n := g.s.Intn(4)
	for i := 0; i < n; i++ {
		switch g.s.Intn(7) {
		case 0:
			s += "/"
		case 1:
			s += "?" + g.word() + "=" + g.word()
		case 2:
			s += "\\" // backslash is literal in autolinks
		case 3:
			s += "[" // must be percent-encoded in href
		case 4:
			s += "&" + g.word() + "=2"
		default:
			s += g.word()
		}
	}
	return s
}

func (g *G) urlPiece(angle bool) Piece {
	switch g.s.Intn(12) {
	case 0:
		return Piece{"/", "/"}
	case 1:
		w := g.word()
		return Piece{"?" + w + "=1", "?" + w + "=1"}
	case 2:
		return Piece{"#" + "frag", "#frag"}
	case 3:
		return Piece{"%20", "%20"}
	case 4:
		c := punct[g.s.Intn(len(punct))]
		return Piece{"\\" + string(c), string(c)}
	case 5:
		e := entities[g.s.Intn(len(entities))]
		return Piece{e.src, e.exp}
	case 6:
		return Piece{"é", "é"}
	case 7:
		if angle {
			return Piece{" ", " "}
		}
		return Piece{"(", "("} // replaced by a balanced pair in url()
	case 8:
		return Piece{".", "."}
	default:
		w := g.word()
		return Piece{w, w}
	}
}

func (g *G) url() URL {
	n := g.s.Intn(4)
	var u URL
	angle := coin(g.s, 1, 3)
	for i := 0; i < n; i++ {
		p := g.urlPiece(angle)
		if strings.HasPrefix(p.Src, "(") && !angle { // balanced parens piece
			w := g.word()
			p = Piece{"(" + w + ")", "(" + w + ")"}
		}
		u.P = append(u.P, p)
	}
	if angle {
		u.P = append([]Piece{{"<", ""}}, append(u.P, Piece{">", ""})...)
	} else if len(u.P) == 0 {
		u.P = []Piece{{"/u", "/u"}}
	}
	return u
}

func (g *G) titleOpt() *Title {
	if !coin(g.s, 1, 3) {
		return nil
	}
	q := "\"'("[g.s.Intn(3)]
	cl := q
	if q == '(' {
		cl = ')'
	}
	t := &Title{}
	t.P = append(t.P, Piece{string(q), ""})
	n := 1 + g.s.Intn(3)
	for i := 0; i < n; i++ {
		if i > 0 {
			t.P = append(t.P, Piece{" ", " "})
		}
		switch g.s.Intn(6) {
		case 0:
			t.P = append(t.P, Piece{"\\" + string(cl), string(cl)})
		case 1:
			e := entities[g.s.Intn(len(entities))]
			t.P = append(t.P, Piece{e.src, e.exp})
		case 2:
			c := punct[g.s.Intn(len(punct))]
			t.P = append(t.P, Piece{"\\" + string(c), string(c)})
		case 3:
			t.P = append(t.P, Piece{"<b>", "<b>"})
		default:
			w := g.word()
			t.P = append(t.P, Piece{w, w})
		}
	}
	t.P = append(t.P, Piece{string(cl), ""})
	return t
}

// labelWords: one to three further words, so that a label has several gaps to spell differently
func (g *G) labelWords() string {
	w := g.word()
	for n := g.s.Intn(3); n > 0; n-- {
		w += " " + g.word()
	}
	return w
}

func (g *G) link(c ictx) Link {
	l := Link{Dest: g.url(), Title: g.titleOpt()}
	l.Form = g.s.Intn(4)
	if l.Form >= 2 {
		// collapsed / shortcut: text is the label
		g.nlabel++
		l.Label = fmt.Sprintf("Lbl%d %s", g.nlabel, g.labelWords())
		l.C = []Inline{Text{caseVariant(g.s, l.Label)}}
		if !c.oneLine && !c.noBreaks && coin(g.s, 1, 3) {
			// the label (= link text) spreads over two lines: a soft break is label whitespace
			parts := strings.SplitN(l.Label, " ", 2)
			l.C = []Inline{Text{caseVariant(g.s, parts[0])}, Soft{}, Text{caseVariant(g.s, parts[1])}}
			labelNLCount++
		}
	} else {
		l.C = g.inlines(c, 3)
		if coin(g.s, 1, 40) {
			// link text has no length limit (only labels are limited to 999 characters): 1000-1600 bytes of words
			var sb strings.Builder
			for n := 1000 + g.s.Intn(600); sb.Len() < n; {
				if sb.Len() > 0 {
					sb.WriteByte(' ')
				}
				sb.WriteString(g.word())
			}
			l.C = []Inline{Text{sb.String()}}
			longTextCount++
		}
		if l.Form == 1 {
			g.nlabel++
			l.Label = fmt.Sprintf("Lbl%d %s", g.nlabel, g.labelWords())
			l.LabelNL = !c.oneLine && !c.noBreaks && coin(g.s, 1, 3)
			if coin(g.s, 1, 40) {
				// a label may have 999 characters - characters, not bytes
				// (one word: respelling a gap with two blanks would make it 1000)
				l.Label = fmt.Sprintf("Lbl%dx", g.nlabel) + strings.Repeat([]string{"a", "é", "語"}[g.s.Intn(3)], 999-len(fmt.Sprintf("Lbl%dx", g.nlabel)))
				l.LabelNL = false
				longLabelCount++
			}
		}
	}
	if l.Form != 0 {
		g.defs = append(g.defs, Def{l.Label, l.Dest, l.Title})
	}
	return l
}

func caseVariant(s Src, lab string) string {
	b := []byte(lab)
	for i, c := range b {
		if coin(s, 1, 3) {
			if c >= 'a' && c <= 'z' {
				b[i] = c - 32
			} else if c >= 'A' && c <= 'Z' {
				b[i] = c + 32
			}
		}
	}
	return string(b)
}

// ---------------- blocks ----------------

var labelNLCount, nearMissCount, longTextCount, emptyItemCount, notLinkCount, codeNLCount, altAutoCount, longLabelCount, nearDefCount, nulCount int

var notLinks = [][2]string{
	{"[zzn](<x<y>)", "[zzn](&lt;x<y>)"}, {"![zzn](<x<y>)", "![zzn](&lt;x<y>)"}, {"[zzn](a b)", "[zzn](a b)"},
	{"[zzn](/u \"t\" x)", "[zzn](/u &quot;t&quot; x)"}, {"[zzn] (/u)", "[zzn] (/u)"}, {"[zzn](<b>c)", "[zzn](<b>c)"},
	{"[zzn](<x\\<y<z>)", "[zzn](&lt;x&lt;y<z>)"},
	// an unbalanced '(' in a bare destination (the destination ends at the space), a title glued to a <...> destination,
	// '<?>' (a processing instruction needs '?>' after '<?')
	{"[zzn]((b 't')", "[zzn]((b 't')"}, {"[zzn](b(c \"t\")", "[zzn](b(c &quot;t&quot;)"}, {"![zzn](/u( )", "![zzn](/u( )"},
	{"[zzn](<b>\"t\")", "[zzn](<b>&quot;t&quot;)"}, {"[zzn](<b>(t))", "[zzn](<b>(t))"}, {"(<?>)", "(&lt;?&gt;)"},
	// (look-alikes that are merely unclosed - "(a(b", an unclosed title or <...> - are not used: what follows may close them)
}
var avoidWSOnly = true
var excludedF19 int

func (g *G) codeLine() string {
	l := g.codeLine0()
	if avoidWSOnly && strings.TrimSpace(l) == "" {
		if l != "" {
			excludedF19++ // known finding F19: whitespace-only code lines inside list items lose their bytes
		}
		return ""
	}
	return l
}

// lines that would open another block if they were not code: inside an indented or fenced code block they
// are literal text (HTML block openers of every type, container markers, fences, breaks, definitions)
var blockStartLookalikes = []string{"<div>", "</div>", "<!-- c -->", "<?php x ?>", "<!DOCTYPE x>", "<![CDATA[x]]>", "<pre>", "<script>", "<a href=\"x\">", "<b>",
	"> q", "1. x", "- x", "+ x", "***", "---", "===", "[a]: /u", "| a | b |", "# h", "## h ##", "<table>", "<x-y>", "&amp;", "\\*"}

func (g *G) codeLine0() string {
	if coin(g.s, 1, 5) {
		return blockStartLookalikes[g.s.Intn(len(blockStartLookalikes))]
	}
	n := g.s.Intn(4)
	var sb strings.Builder
	for i := 0; i < n; i++ {
		switch g.s.Intn(9) {
		case 0:
			sb.WriteString("  ")
		case 1:
			sb.WriteString("<&>\"")
			if coin(g.s, 1, 6) {
				sb.WriteString("\x00") // NUL: written as U+FFFD
				nulCount++
			}
		case 2:
			sb.WriteString("*x*")
		case 3:
			sb.WriteString("\t")
		case 4:
			sb.WriteString("# ")
		case 5:
			sb.WriteString("- ")
		case 6:
			sb.WriteString("``")
		case 7:
			sb.WriteString("~~")
		default:
			sb.WriteString(g.word())
		}
	}
	return sb.String()
}

func (g *G) block(depth int, firstInItem bool, marker byte) Block {
	for {
		k := g.s.Intn(12)
		switch k {
		case 0, 1, 2:
			return Para{g.inlines(ictx{para: true}, 5)}
		case 3:
			lv := 1 + g.s.Intn(6)
			return Heading{lv, g.inlines(ictx{oneLine: lv > 2 || coin(g.s, 1, 2)}, 4)}
		case 4:
			return HR{}
		case 5:
			if firstInItem && coin(g.s, 1, 2) {
				continue // (an item that begins with indented code: the marker is followed by one space, then the code's four)
			}
			n := 1 + g.s.Intn(3)
			var ls []string
			for i := 0; i < n; i++ {
				l := g.codeLine()
				if (i == 0 || i == n-1) && strings.TrimSpace(l) == "" {
					l = g.word()
				}
				if i == 0 {
					l = strings.TrimLeft(l, " \t") // first line's extra indentation handled separately
					if l == "" {
						l = g.word()
					}
				}
				if strings.TrimSpace(l) == "" {
					l = ""
				}
				if i == 0 && firstInItem && strings.Trim(l, "*-_ \t") == "" {
					l = g.word() + " " + l // "*     ***" is a thematic break, not an item holding code
				}
				ls = append(ls, l)
			}
			return ICode{ls}
		case 6:
			n := g.s.Intn(4)
			var ls []string
			for i := 0; i < n; i++ {
				ls = append(ls, g.codeLine())
			}
			var info []Piece
			if coin(g.s, 1, 2) {
				info = append(info, Piece{g.word(), ""})
				info[0].Val = info[0].Src
				if coin(g.s, 1, 3) {
					e := entities[g.s.Intn(6)]
					info = append(info, Piece{e.src, e.exp})
				}
				if coin(g.s, 1, 3) {
					w := " " + g.word()
					info = append(info, Piece{w, w})
				}
			}
			return FCode{info, ls}
		case 7:
			if depth >= 3 {
				continue
			}
			n := 1 + g.s.Intn(3)
			return Quote{C: g.blocks(depth+1, n, false, false, 0), Trail: coin(g.s, 1, 3)}
		case 8, 9:
			if depth >= 3 {
				continue
			}
			return g.list(depth + 1)
		case 10:
			return g.htmlBlock()
		default:
			if coin(g.s, 1, 10) {
				// a line that looks like a link reference definition but is not one: an unbalanced '(' in the
				// destination, text after the title, a label of 1000 characters; and '</ div>', which is no tag
				nd := []string{"[zzr]: (b", "[zzr]: /u(", "[zzr]: b(c 't'", "[zzr]: /u 't' x", "[" + strings.Repeat("a", 1000) + "]: /u", "</ div>", "</ a>", "</a/>", "</x-y />", "<pre\fx>", "<script\fy>"}[g.s.Intn(11)]
				nearDefCount++
				if coin(g.s, 1, 5) {
					// a tag whose name is not in the condition-6 list, followed by text: a paragraph with inline raw
					// HTML (meta was removed from the list in 0.29; the others are near misses of listed names)
					tag := []string{"<meta charset=\"x\">", "<meta>", "<divx>", "<h7>", "<sectionx a='b'>", "<source src=x>"}[g.s.Intn(6)]
					return Para{[]Inline{Raw{tag}, Text{" "}, Emph{[]Inline{Text{g.word()}}}}}
				}
				if coin(g.s, 1, 4) {
					// a closing tag of pre / script / style / textarea alone on its line is no HTML block start
					// (condition 7 excludes these names): a paragraph holding inline raw HTML
					return Para{[]Inline{Raw{[]string{"</textarea>", "</pre>", "</script>", "</style>", "</TEXTAREA >"}[g.s.Intn(5)]}}}
				}
				return Para{[]Inline{Text{nd}}}
			}
			return Para{g.inlines(ictx{para: true}, 3)}
		}
	}
}

func (g *G) htmlBlock() HTMLB {
	ind := strings.Repeat(" ", g.s.Intn(4))
	switch g.s.Intn(10) {
	case 9:
		// start condition 7: a complete open or closing tag followed only by spaces and tabs (tabs inside the tag too)
		open := []string{"<a>\t", "<a href=\"x\"\t>", "</a\t>", "<x-y\tz='1'> \t", "<a> "}[g.s.Intn(5)]
		return HTMLB{[]string{ind + open, "*" + g.word() + "*"}}
	case 7:
		// start condition 6 in its other spellings: the tag name is followed by a space, a tab, the end of the line, '>' or '/>'
		open := []string{"<div\tclass=\"a\">", "<div class='a'", "<div", "<div/>", "</div>", "<div\t"}[g.s.Intn(6)]
		return HTMLB{[]string{ind + open, "*" + g.word() + "*"}}
	case 8:
		// start condition 4: "<!" followed by an ASCII letter, in either case
		first := []string{"<!doctype html>", "<!a", "<!ELEMENT br EMPTY>", "<!x y"}[g.s.Intn(4)]
		if strings.HasSuffix(first, ">") { // the block ends with the line that holds the first '>'
			return HTMLB{[]string{ind + first}}
		}
		return HTMLB{[]string{ind + first, g.word() + ">"}}
	case 0:
		return HTMLB{[]string{ind + "<div>", "*" + g.word() + "*", "</div>"}}
	case 1:
		return HTMLB{[]string{ind + "<pre>", "", "  " + g.word(), "</pre> tail"}}
	case 2:
		return HTMLB{[]string{ind + "<!-- " + g.word(), "", "- x -->" + " after"}}
	case 3:
		return HTMLB{[]string{ind + "<?php", "", "?>"}}
	case 4:
		return HTMLB{[]string{ind + "<!DOCTYPE html>"}}
	case 5:
		return HTMLB{[]string{ind + "<![CDATA[", "", "]]>"}}
	default:
		return HTMLB{[]string{ind + "<x-foo a=\"b\">", g.word()}}
	}
}

func htmlType(h HTMLB) int {
	l := strings.TrimLeft(h.Lines[0], " ")
	switch {
	case strings.HasPrefix(l, "<pre"):
		return 1
	case strings.HasPrefix(l, "<!--"):
		return 2
	case strings.HasPrefix(l, "<?"):
		return 3
	case strings.HasPrefix(l, "<!") && len(l) > 2 && (l[2]|0x20) >= 'a' && (l[2]|0x20) <= 'z':
		return 4
	case strings.HasPrefix(l, "<![CDATA["):
		return 5
	case strings.HasPrefix(l, "<div"), strings.HasPrefix(l, "</div"):
		return 6
	}
	return 7
}

// can cur follow prev with no blank line in between, with the meaning unchanged?
func direct(prev, cur Block) bool {
	switch p := prev.(type) {
	case Para:
		switch c := cur.(type) {
		case Heading:
			return true // serialiser uses ATX when following a paragraph directly
		case HR, FCode, Quote:
			return true
		case List:
			if len(c.Items[0]) == 0 {
				return false
			}
			return !c.Ordered || c.Start == 1
		case HTMLB:
			return htmlType(c) <= 6
		}
		return false
	case Heading, HR, FCode:
		_ = p
		if _, ok := cur.(ICode); ok {
			return true
		}
		return true
	case ICode:
		_, isCode := cur.(ICode)
		return !isCode
	case HTMLB:
		return htmlType(p) <= 5
	case Quote:
		if p.Trail {
			switch cur.(type) {
			case Para, Heading, HR, FCode:
				return true
			}
		}
		return false
	case List:
		return false
	}
	return false
}

func (g *G) blocks(depth, n int, tight bool, inItem bool, marker byte) []Block {
	var out []Block
	for len(out) < n {
		if tight && len(out) > 0 {
			switch p := out[len(out)-1].(type) {
			case List:
				return out
			case Quote:
				if !p.Trail {
					return out
				}
			case HTMLB:
				if htmlType(p) > 5 {
					return out
				}
			}
		}
		b := g.block(depth, inItem && len(out) == 0, marker)
		if h, ok := b.(HTMLB); ok {
			afterList := false
			if len(out) > 0 {
				_, afterList = out[len(out)-1].(List)
			}
			if (inItem && len(out) == 0) || afterList {
				h.Lines[0] = strings.TrimLeft(h.Lines[0], " ")
				b = h
			}
		}
		if len(out) > 0 {
			prev := out[len(out)-1]
			// never two indented code blocks in a row, never indented code after a list (would join the item)
			if _, ok := b.(ICode); ok {
				switch prev.(type) {
				case ICode, List:
					continue
				}
			}
			if pl, ok := prev.(List); ok {
				if cl, ok := b.(List); ok && pl.Ordered == cl.Ordered {
					continue // same-type lists: avoid marker bookkeeping, just don't put them adjacent
				}
			}
			if tight && !direct(prev, b) {
				continue
			}
		}
		out = append(out, b)
	}
	return out
}

func (g *G) list(depth int) List {
	l := List{Ordered: coin(g.s, 1, 2)}
	if l.Ordered {
		switch g.s.Intn(4) {
		case 0:
			l.Start = 1
		case 1:
			l.Start = 0
		case 2:
			l.Start = g.s.Intn(1000)
		default:
			l.Start = 1
		}
	}
	n := 1 + g.s.Intn(3)
	l.Tight = coin(g.s, 1, 2)
	for i := 0; i < n; i++ {
		if coin(g.s, 1, 8) {
			l.Items = append(l.Items, nil) // an empty item: the marker alone on its line
			emptyItemCount++
			continue
		}
		k := 1 + g.s.Intn(2)
		l.Items = append(l.Items, g.blocks(depth, k, l.Tight, true, 0))
	}
	// a list with one single-block item cannot be loose
	if !l.Tight {
		multi := len(l.Items) > 1
		for _, it := range l.Items {
			if len(it) > 1 {
				multi = true
			}
		}
		if !multi {
			l.Tight = true
		}
	}
	return l
}

func (g *G) doc() Doc {
	g.defs = nil
	g.nlabel = 0
	n := 1 + g.s.Intn(4)
	d := Doc{Blocks: g.blocks(0, n, false, false, 0)}
	d.Defs = g.defs
	return d
}
