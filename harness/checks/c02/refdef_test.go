package c02

import (
	"bytes"
	"strings"
	"testing"

	"pgregory.net/rapid"

	"verif/gen"
	"verif/kit"
)

// Reference reading of link reference definitions at the start of a paragraph (CommonMark 0.31.2, section 4.7) for
// paragraphs of one to four lines built from inert tokens, and a generator of definition look-alikes. The labels are
// "aa" and "bb"; the document ends with the paragraph "[aa] [bb]", so what was defined, with which destination and
// title, and what remained as paragraph text all show in the HTML.

type refDef struct{ label, dest, title string }

// parseRefDefs consumes definitions from the start of the paragraph text (lines joined by "\n", already stripped of
// their leading white space) and returns them with the text that remains.
func parseRefDefs(p string) (defs []refDef, rest string) {
	for {
		d, n, ok := parseOneRefDef(p)
		if !ok {
			return defs, p
		}
		defs = append(defs, d)
		p = p[n:]
		if p == "" {
			return defs, ""
		}
	}
}

func parseOneRefDef(s string) (d refDef, n int, ok bool) {
	skip := func(i int) (j int, newlines int) { // spaces, tabs and line endings
		for i < len(s) && (s[i] == ' ' || s[i] == '\t' || s[i] == '\n') {
			if s[i] == '\n' {
				newlines++
			}
			i++
		}
		return i, newlines
	}
	if !strings.HasPrefix(s, "[") {
		return
	}
	i := strings.IndexByte(s, ']')
	if i < 2 || strings.ContainsAny(s[1:i], "[\\") || strings.TrimSpace(s[1:i]) == "" {
		return
	}
	d.label = s[1:i]
	i++
	if i >= len(s) || s[i] != ':' {
		return
	}
	i++
	i, nl := skip(i)
	if nl > 1 || i >= len(s) {
		return
	}
	// destination
	if s[i] == '<' {
		j := i + 1
		for j < len(s) && s[j] != '>' && s[j] != '<' && s[j] != '\n' {
			j++
		}
		if j >= len(s) || s[j] != '>' {
			return
		}
		d.dest = s[i+1 : j]
		i = j + 1
	} else {
		j, depth := i, 0
		for j < len(s) && s[j] != ' ' && s[j] != '\t' && s[j] != '\n' {
			if s[j] == '(' {
				depth++
			} else if s[j] == ')' {
				if depth == 0 {
					break
				}
				depth--
			}
			j++
		}
		if depth != 0 || j == i {
			return
		}
		d.dest = s[i:j]
		i = j
	}
	// the definition is complete here if the rest of the line is blank
	eol := func(i int) (end int, blank bool) {
		j := i
		for j < len(s) && (s[j] == ' ' || s[j] == '\t') {
			j++
		}
		if j >= len(s) {
			return j, true
		}
		if s[j] == '\n' {
			return j + 1, true
		}
		return j, false
	}
	endNoTitle, destLineBlank := eol(i)
	// title
	j, nl := skip(i)
	if j < len(s) && j > i && nl <= 1 && (s[j] == '"' || s[j] == '\'' || s[j] == '(') {
		closer := s[j]
		if closer == '(' {
			closer = ')'
		}
		k := j + 1
		for k < len(s) && s[k] != closer && !(s[j] == '(' && s[k] == '(') {
			if s[k] == '\n' && k+1 < len(s) && s[k+1] == '\n' {
				break // a title cannot contain a blank line (cannot happen inside one paragraph anyway)
			}
			k++
		}
		if k < len(s) && s[k] == closer {
			if end, blank := eol(k + 1); blank {
				d.title = s[j+1 : k]
				return d, end, true
			}
		}
	}
	if destLineBlank {
		d.title = "\x00none"
		return d, endNoTitle, true
	}
	return refDef{}, 0, false
}

func refDefOracle(c *kit.Case) error {
	para := string(c.Bytes["para"])
	src := para + "\n\n[aa] [bb]\n"
	// the paragraph's raw content: lines without their leading white space
	var lines []string
	for _, l := range strings.Split(para, "\n") {
		lines = append(lines, strings.TrimLeft(l, " \t"))
	}
	defs, rest := parseRefDefs(strings.Join(lines, "\n"))
	first := map[string]refDef{}
	for _, d := range defs {
		key := strings.ToLower(strings.Join(strings.Fields(d.label), " "))
		if _, dup := first[key]; !dup {
			first[key] = d
		}
	}
	var want strings.Builder
	want.WriteString("<p>")
	for i, lab := range []string{"aa", "bb"} {
		if i > 0 {
			want.WriteString(" ")
		}
		if d, ok := first[lab]; ok {
			want.WriteString(`<a href="` + esc(urlEsc(d.dest)) + `"`)
			if d.title != "\x00none" {
				want.WriteString(` title="` + esc(d.title) + `"`)
			}
			want.WriteString(">" + lab + "</a>")
		} else {
			want.WriteString("[" + lab + "]")
		}
	}
	want.WriteString("</p>\n")
	var got bytes.Buffer
	if err := (gen.Config{Unsafe: true}).MD().Convert([]byte(src), &got); err != nil {
		return kit.Violf("convert-error", "%v", err)
	}
	// what the definitions resolved to shows in the last paragraph; whether text remained in the first one shows in
	// the number of paragraphs (the remaining text itself is inline content, which other tiers cover)
	out := got.String()
	last := out
	if i := strings.LastIndex(out, "<p>"); i >= 0 {
		last = out[i:]
	}
	wantRest := strings.TrimSpace(rest) != ""
	gotRest := strings.Count(out, "<p>") > 1
	if last != want.String() || gotRest != wantRest {
		return kit.Violf("reference-definitions", "%q\n got  %q\n want the last paragraph %q and remaining paragraph text: %v (reference reading of the definitions at the start of the paragraph: %d found, rest %q)", src, out, want.String(), wantRest, len(defs), rest)
	}
	return nil
}

var rdToks = []string{"[aa]:", "[bb]:", "[aa]:", "[ aa ]:", "[AA]:", "[aa]", "[cc]:", "[]:", "[aa] :", " ", " ", "\t", "\n", "\n", "\n ", "\n   ", "/u", "/v", "<w>", "<w x>", "<>", "x(y)", "x(y", "\"t\"", "'t'", "(t)", "\"t", "'t u'", "(t (u))", "\"t\nu\"", "\"t\n   u\"", "(\n t)", "word", "w2"}

func TestRefDefs(t *testing.T) {
	kit.Rapid(t, "refdefs", 150000, 8000000, func(t *rapid.T) {
		idx := rapid.SliceOfN(rapid.IntRange(0, len(rdToks)-1), 1, 9).Draw(t, "toks")
		var sb strings.Builder
		for _, i := range idx {
			sb.WriteString(rdToks[i])
		}
		para := strings.Trim(sb.String(), " \t\n")
		if para == "" || strings.Contains(para, "\n\n") || strings.Contains(para, "\n \n") || strings.Contains(para, "\n   \n") || strings.Contains(para, "\n\t\n") {
			return
		}
		if strings.Count(para, "\n") > 3 {
			return
		}
		for _, l := range strings.Split(para, "\n") {
			// lines that would start another block or interrupt the paragraph are not part of this sub-language
			tl := strings.TrimLeft(l, " \t")
			if strings.TrimSpace(l) == "" || strings.HasPrefix(tl, "<") || len(l)-len(tl) >= 4 && l == strings.Split(para, "\n")[0] {
				return
			}
		}
		c := kit.NewCase("refdefs", "unsafe").B("para", []byte(para))
		if kit.Check(t, c) {
			kit.R.Class("refdefs")
			kit.R.NonTrivial(c)
		}
	})
}
