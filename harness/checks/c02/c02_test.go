// Package c02: CommonMark conformance on constructed documents and on
// rewritten spec examples.
//
// model_test.go / gen_test.go / ser_test.go hold the document model with its
// reference renderer (expected HTML by construction), the model generator and
// the serialiser that picks among equivalent spellings. All random choices
// go through the Src interface, implemented here with rapid draws.
package c02

import (
	"bytes"
	"fmt"
	"regexp"
	"sort"
	"strings"
	"testing"

	"github.com/yuin/goldmark/ast"
	"github.com/yuin/goldmark/text"
	"pgregory.net/rapid"

	"verif/gen"
	"verif/kit"
)

func TestMain(m *testing.M) {
	kit.Register("final-eol", eolOracle)
	kit.Register("constructed", compareOracle)
	kit.Register("spec-rewrite", compareOracle)
	kit.Register("emphasis", emphasisOracle)
	kit.Register("emphasis-lines", emphasisLinesOracle)
	kit.Register("html-start", htmlStartOracle)
	kit.Register("link-tail", linkTailOracle)
	kit.Register("block-start", blockStartOracle)
	kit.Register("refdefs", refDefOracle)
	kit.SetClassifier(classify)
	kit.Describe("(a) spec-rewrite: every one of the 652 examples of spec.json x the licensed rewrites (final newline removed / doubled; an unrelated closed block with known HTML in front; behind; both), enumerated exhaustively; the expected side is spec.json's html (+ the known HTML of the added block). (b) constructed: a document model (paragraph, ATX/Setext heading, thematic break, indented and fenced code, block quote, tight/loose bullet and ordered lists, reference definitions, HTML blocks; text with escapes and entities, emphasis/strong nesting, code spans, inline/full/collapsed/shortcut links, images, autolinks, raw HTML, hard and soft breaks) is generated, rendered to expected HTML by a reference renderer and serialised to Markdown with a random choice among equivalent spellings (markers, ATX/Setext, fence character/length/indent, 0-3 columns of extra indentation, tabs reaching the same columns, lazy continuation, label case/whitespace variants, either emphasis delimiter, backslash/entity escapes); comparison modulo whitespace next to block tags. (c) emphasis: delimiter soup over {words, spaces, * and _ runs, punctuation} against a reference implementation of the spec's delimiter-run algorithm that is validated on the spec's emphasis examples at start-up. non-trivial: (a) every case; (b) documents with >= 2 block kinds and >= 1 non-default spelling; (c) inputs with >= 2 delimiter runs; distinct by hash of (source, expected)",
		"configuration: core parser, WithUnsafe (and XHTML for the spec part, as in spec.json)", "the serialiser only emits spellings whose meaning is fixed by construction; choices excluded because of known findings F19/F20 are counted")
	kit.Main(m, "C02")
}

var blockTag = `(?:p|h[1-6]|blockquote|pre|ul|ol|li|hr)`
var reBefore = regexp.MustCompile(`\s+(</?` + blockTag + `[ >])`)
var reAfter = regexp.MustCompile(`(</?` + blockTag + `(?: [^>]*)?>)\s+`)

// norm strips whitespace adjacent to block-level tags (outside <pre>) - the
// slack the spec's own comparison grants between blocks.
func norm(s string) string {
	var sb strings.Builder
	for {
		i := strings.Index(s, "<pre>")
		if i < 0 {
			sb.WriteString(normPart(s))
			break
		}
		j := strings.Index(s[i:], "</pre>")
		if j < 0 {
			sb.WriteString(normPart(s))
			break
		}
		sb.WriteString(normPart(s[:i]))
		sb.WriteString(s[i : i+j+len("</pre>")])
		s = s[i+j+len("</pre>"):]
	}
	return strings.TrimSpace(sb.String())
}

func normPart(s string) string {
	s = reBefore.ReplaceAllString(s, "$1")
	s = reAfter.ReplaceAllString(s, "$1")
	return s
}

func compareOracle(c *kit.Case) error {
	cfg := gen.ParseConfig(c.Config)
	var b bytes.Buffer
	if err := cfg.MD().Convert(c.Bytes["src"], &b); err != nil {
		return kit.Violf("convert-error", "%v", err)
	}
	got, want := norm(b.String()), norm(string(c.Bytes["want"]))
	if got != want {
		return kit.Violf("html-differs", "%s\n source %q\n got    %q\n want   %q", c.Strs["what"], c.Bytes["src"], got, want)
	}
	return nil
}

var rePre = regexp.MustCompile(`(?s)<pre>.*?</pre>`)

var reWSLine = regexp.MustCompile(`(\n|>)[ \t]+\n`)

func blankWSLines(s string) string {
	return rePre.ReplaceAllStringFunc(s, func(pre string) string {
		for reWSLine.MatchString(pre) {
			pre = reWSLine.ReplaceAllString(pre, "$1\n")
		}
		return pre
	})
}

var reURLAttr = regexp.MustCompile(`(href|src)="[^"]*"`)

// a numeric character reference to '&' (the other way to put an '&' in front of text that then reads as a reference)
var reAmpRef = regexp.MustCompile(`&#0*38;|&#[xX]0*26;`)

// classify: cause signatures of the two recorded findings.
//
//	F19: inside a list item, a code-block line made only of spaces/tabs loses
//	     them: the outputs are equal once whitespace-only lines inside <pre>
//	     are blanked, and the source has such a line below a list marker.
//	F20: a backslash-escaped '&' in a link destination is unescaped and then
//	     resolved as the start of a character reference: the outputs differ
//	     only inside href/src values and the source contains '\&' (F20b: or a
//	     numeric reference to '&', which reaches the same three-pass decoding).
func classify(c *kit.Case, err error) string {
	v, ok := err.(*kit.Violation)
	if ok && v.Code == "final-line-ending-matters" {
		return classifyEOL(c)
	}
	if !ok || v.Code != "html-differs" {
		return ""
	}
	cfg := gen.ParseConfig(c.Config)
	var b bytes.Buffer
	_ = cfg.MD().Convert(c.Bytes["src"], &b)
	got, want := norm(b.String()), norm(string(c.Bytes["want"]))
	src := string(c.Bytes["src"])
	if blankWSLines(got) == blankWSLines(want) && regexp.MustCompile(`(?m)^[ >]*([-+*]|\d+[.)])[ \t]`).MatchString(src) &&
		regexp.MustCompile(`(?m)^[ \t>]*[ \t]$`).MatchString(src) {
		return "F19"
	}
	if (strings.Contains(src, "\\&") || reAmpRef.MatchString(src)) && reURLAttr.ReplaceAllString(got, "$1") == reURLAttr.ReplaceAllString(want, "$1") {
		if !strings.Contains(src, "\\&") {
			return "F20b"
		}
		return "F20"
	}
	return ""
}

// F31: the input ends, without a line ending, in a line that is blank once the container markers are removed
// (only '>' markers and spaces/tabs) while a fenced code block is open inside the container: the blank content
// line is lost (quote: the marker line is consumed whole and the child never sees an empty line) or keeps one
// byte of the indentation (list item: Continue advances len(line)-1 assuming a line ending). Signature: the last
// line is made of quote markers (each with at most one following space/tab), or is blank with the fenced block
// inside a list item, and the two outputs agree once the white space directly in front of every
// "</code></pre>" is removed.
var reMarkerOnlyLastLine = regexp.MustCompile(`(^|\n)[ \t]*(>[ \t]{0,4})*>[ \t]?$`)
var reBlankLastLine = regexp.MustCompile(`(^|\n)[ \t\r>]*[ \t]$`) // blank apart from quote markers in front

// inListItem: the last fenced code block of the document sits inside a list item
func lastFenceInListItem(cfg gen.Config, src []byte) bool {
	doc := cfg.MD().Parser().Parse(text.NewReader(src))
	var last ast.Node
	_ = ast.Walk(doc, func(n ast.Node, entering bool) (ast.WalkStatus, error) {
		if entering && n.Kind() == ast.KindFencedCodeBlock {
			last = n
		}
		return ast.WalkContinue, nil
	})
	for p := last; p != nil; p = p.Parent() {
		if p.Kind() == ast.KindListItem {
			return true
		}
	}
	return false
}

var reCodeTail = regexp.MustCompile(`[ \t\n]*</code></pre>`)

func classifyEOL(c *kit.Case) string {
	src := c.Bytes["src"]
	cfg := gen.ParseConfig(c.Config)
	if !reMarkerOnlyLastLine.Match(src) && !(reBlankLastLine.Match(src) && lastFenceInListItem(cfg, src)) {
		return ""
	}
	var a, b bytes.Buffer
	_ = cfg.MD().Convert(src, &a)
	_ = cfg.MD().Convert(append(append([]byte{}, src...), '\n'), &b)
	x, y := norm(a.String()), norm(b.String())
	if x != y && reCodeTail.ReplaceAllString(x, "</code></pre>") == reCodeTail.ReplaceAllString(y, "</code></pre>") {
		return "F31"
	}
	return ""
}

// ---- rapid-backed choice source

type rsrc struct{ t *rapid.T }

func (r rsrc) Intn(n int) int {
	if n <= 1 {
		return 0
	}
	return rapid.IntRange(0, n-1).Draw(r.t, "c")
}

func TestKnown(t *testing.T)  { kit.RunKnown(t) }
func TestReplay(t *testing.T) { kit.RunReplay(t) }

var choiceTotals = map[string]int{}

func blockKinds(bs []Block, set map[string]bool) {
	for _, b := range bs {
		set[fmt.Sprintf("%T", b)] = true
		switch v := b.(type) {
		case Quote:
			blockKinds(v.C, set)
		case List:
			for _, it := range v.Items {
				blockKinds(it, set)
			}
		}
	}
}

// eolOracle: CommonMark 2.1 - a line ends with a line ending "or by the end of file": a document and the same
// document with a final line ending added have the same lines, hence the same blocks and the same HTML.
func eolOracle(c *kit.Case) error {
	cfg := gen.ParseConfig(c.Config)
	src := c.Bytes["src"]
	if n := len(src); n == 0 || src[n-1] == '\n' || src[n-1] == '\r' {
		return nil
	}
	var a, b bytes.Buffer
	if err := cfg.MD().Convert(src, &a); err != nil {
		return kit.Violf("convert-error", "%v", err)
	}
	if err := cfg.MD().Convert(append(append([]byte{}, src...), '\n'), &b); err != nil {
		return kit.Violf("convert-error", "%v", err)
	}
	if x, y := norm(a.String()), norm(b.String()); x != y {
		return kit.Violf("final-line-ending-matters", "source %q\n without final line ending %q\n with it                   %q", src, x, y)
	}
	return nil
}

var eolConfigs = []gen.Config{{Unsafe: true}, {}, {Unsafe: true, XHTML: true}}

// TestFinalLineEnding: (1) every construct-adjacency document (pairs, and triples over the tier's pool) and every
// single line atom and pair of line atoms, written without the final line ending; (2) random documents of the
// shared generators cut to end without one. Core CommonMark configurations only.
func TestFinalLineEnding(t *testing.T) {
	count := 0
	runOne := func(doc []byte, class string) {
		doc = bytes.TrimRight(doc, "\r\n")
		if len(doc) == 0 {
			return
		}
		c := kit.NewCase("final-eol", eolConfigs[count%len(eolConfigs)].String()).B("src", doc)
		count++
		if kit.Check(t, c) {
			kit.R.Class("final-eol:" + class)
			kit.R.NonTrivial(c)
		}
	}
	n := gen.EnumConstructDocs(kit.Thorough(), func(idx int, doc []byte) {
		if kit.Mine(idx) {
			runOne(doc, "constructs")
		}
	})
	atoms := gen.LineAtoms(true)
	idx := 0
	for _, a := range atoms {
		idx++
		if kit.Mine(idx) {
			runOne([]byte(a), "line-atoms")
		}
		for _, b := range atoms {
			idx++
			if kit.Mine(idx) {
				runOne([]byte(a+"\n"+b), "line-atoms")
			}
		}
	}
	kit.R.Note("exhaustive_final_eol", fmt.Sprintf("%d construct-adjacency documents and %d line-atom documents, each without its final line ending", n, idx))
	kit.Rapid(t, "final-eol", 60000, 4000000, func(t *rapid.T) {
		doc, class := gen.Doc(t, gen.Any, kit.Pick(24, 60), "d")
		doc = bytes.TrimRight(doc, "\r\n")
		if len(doc) == 0 {
			return
		}
		c := kit.NewCase("final-eol", rapid.SampledFrom(eolConfigs).Draw(t, "cfg").String()).B("src", doc)
		if kit.Check(t, c) {
			kit.R.Class("final-eol:random", "final-eol-gen:"+class)
			kit.R.NonTrivial(c)
		}
	})
}

func TestConstructed(t *testing.T) {
	kit.Rapid(t, "constructed", 80000, 6000000, func(t *rapid.T) {
		r := rsrc{t}
		g := &G{s: r}
		d := g.doc()
		choices := map[string]int{}
		z := &Z{s: r, tabs: rapid.Bool().Draw(t, "tabs"), lazy: rapid.Bool().Draw(t, "lazy"), extra: rapid.Bool().Draw(t, "extra"), choices: choices}
		var src string
		func() {
			defer func() {
				if rec := recover(); rec != nil {
					if s, ok := rec.(string); ok && (s == "multi-line ATX" || s == "tight adjacency" || s == "pi hazard") {
						src = ""
						return
					}
					panic(rec)
				}
			}()
			src = z.doc(d)
		}()
		if src == "" {
			kit.R.Class("model-not-serialisable")
			return
		}
		blocks := d.Blocks
		if len(z.extraParas) > 0 {
			blocks = nil
			for k := 0; k <= len(d.Blocks); k++ {
				blocks = append(blocks, z.extraParas[k]...)
				if k < len(d.Blocks) {
					blocks = append(blocks, d.Blocks[k])
				}
			}
		}
		want := renderBlocks(blocks, false)
		if codeNLCount > 0 {
			kit.R.ClassN("spelling:line-ending-in-code-span", int64(codeNLCount))
			codeNLCount = 0
		}
		if altAutoCount > 0 {
			kit.R.ClassN("construct:autolink-in-image-description", int64(altAutoCount))
			altAutoCount = 0
		}
		if nulCount > 0 {
			kit.R.ClassN("spelling:nul-in-code", int64(nulCount))
			nulCount = 0
		}
		if longLabelCount > 0 {
			kit.R.ClassN("spelling:label-of-999-characters", int64(longLabelCount))
			longLabelCount = 0
		}
		if nearDefCount > 0 {
			kit.R.ClassN("spelling:definition-look-alike", int64(nearDefCount))
			nearDefCount = 0
		}
		if notLinkCount > 0 {
			kit.R.ClassN("spelling:link-look-alike", int64(notLinkCount))
			notLinkCount = 0
		}
		if emptyItemCount > 0 {
			kit.R.ClassN("construct:empty-list-item", int64(emptyItemCount))
			emptyItemCount = 0
		}
		if nearMissCount > 0 {
			kit.R.ClassN("spelling:near-miss-continuation-line", int64(nearMissCount))
			nearMissCount = 0
		}
		if longTextCount > 0 {
			kit.R.ClassN("spelling:link-text-over-1000-bytes", int64(longTextCount))
			longTextCount = 0
		}
		if labelNLCount > 0 {
			kit.R.ClassN("spelling:label-over-two-lines", int64(labelNLCount))
			labelNLCount = 0
		}
		if excludedF19 > 0 {
			kit.R.ClassN("excluded-by-construction:F19-whitespace-only-code-line", int64(excludedF19))
			excludedF19 = 0
		}
		c := kit.NewCase("constructed", "unsafe").B("src", []byte(src)).B("want", []byte(want)).S("what", "constructed document")
		if kit.Check(t, c) {
			kit.R.Class("constructed")
			kinds := map[string]bool{}
			blockKinds(d.Blocks, kinds)
			for k := range kinds {
				kit.R.Class("block:" + strings.TrimPrefix(k, "c02."))
			}
			for k, v := range choices {
				kit.R.ClassN("spelling:"+k, int64(v))
			}
			if len(kinds) >= 2 && len(choices) >= 1 {
				kit.R.NonTrivial(c)
			}
		}
	})
}

// ---- (a) spec examples x licensed rewrites

type blockKV struct{ md, html string }

var fronts = []blockKV{
	{"lead paragraph of words", "<p>lead paragraph of words</p>\n"},
	{"***", "<hr />\n"},
	{"# lead heading", "<h1>lead heading</h1>\n"},
	{"```\nlead code\n```", "<pre><code>lead code\n</code></pre>\n"},
	{"<div>\nlead html\n</div>", "<div>\nlead html\n</div>\n"},
	{"> lead quote", "<blockquote>\n<p>lead quote</p>\n</blockquote>\n"},
}
var backs = []blockKV{
	{"# tail heading\n", "<h1>tail heading</h1>\n"},
	{"***\n", "<hr />\n"},
	{"```\ntail code\n```\n", "<pre><code>tail code\n</code></pre>\n"},
}

// examples that end inside an open fenced / HTML block (spec 0.31.2), verified by hand
var openEnded = map[int]bool{126: true, 127: true, 137: true, 139: true, 173: true, 237: true}

func endsOpen(md string) bool {
	lines := strings.Split(md, "\n")
	fence := ""
	for _, l := range lines {
		tl := strings.TrimLeft(l, " >")
		if fence == "" {
			if strings.HasPrefix(tl, "```") || strings.HasPrefix(tl, "~~~") {
				fence = tl[:3]
			}
		} else if strings.HasPrefix(tl, fence) && strings.Trim(tl, "`~ ") == "" {
			fence = ""
		}
	}
	return fence != ""
}

func TestSpecRewrites(t *testing.T) {
	spec := gen.Spec()
	if len(spec) < 600 {
		fmt.Println("HARNESS-ERROR C02 spec.json not found or too small")
		t.FailNow()
	}
	count := 0
	run := func(e gen.SpecExample, what, src, want string) {
		count++
		c := kit.NewCase("spec-rewrite", "unsafe+xhtml").B("src", []byte(src)).B("want", []byte(want)).S("what", fmt.Sprintf("spec example %d (%s), rewrite: %s", e.Example, e.Section, what))
		if kit.Check(t, c) {
			kit.R.Class("rewrite:" + what)
			kit.R.NonTrivial(c)
		}
	}
	for i, e := range spec {
		if !kit.Mine(i) {
			continue
		}
		md := e.Markdown
		run(e, "unchanged", md, e.HTML)
		if strings.HasSuffix(md, "\n") {
			run(e, "final newline removed", strings.TrimSuffix(md, "\n"), e.HTML)
		}
		// an extra final newline must not matter unless the document ends inside an open fenced code block
		if !endsOpen(md) && !openEnded[e.Example] {
			run(e, "final newline doubled", md+"\n", e.HTML)
		}
		if !strings.Contains(md, "[") {
			for _, f := range fronts {
				run(e, "closed block in front", f.md+"\n\n"+md, f.html+e.HTML)
			}
		}
		if !openEnded[e.Example] && !endsOpen(md) {
			sep := "\n"
			if !strings.HasSuffix(md, "\n") {
				sep = "\n\n"
			}
			for _, b := range backs {
				run(e, "closed block behind", md+sep+b.md, e.HTML+b.html)
				if !strings.Contains(md, "[") {
					run(e, "closed blocks in front and behind", fronts[0].md+"\n\n"+md+sep+b.md, fronts[0].html+e.HTML+b.html)
				}
			}
		}
	}
	kit.R.Note("exhaustive", true)
	kit.R.Note("exhaustive_what", "all 652 spec examples x the rewrite set")
	_ = sort.Strings
}
