package c02

import (
	"fmt"
	"html"
	"strings"
)

// ---------- randomness source (math/rand now, rapid later) ----------

type Src interface{ Intn(n int) int }

func coin(s Src, num, den int) bool { return s.Intn(den) < num }

// ---------- inline model ----------

type Inline interface{}

type Text struct{ S string }       // safe literal text (words, single spaces, inert punctuation)
type Esc struct{ C byte }          // backslash-escaped ASCII punctuation
type Ent struct{ Src, Exp string } // entity reference and its expansion
type Emph struct{ C []Inline }     // <em>
type Strong struct{ C []Inline }   // <strong>
type Code struct{ S string }       // code span content (raw)
type Link struct {                 // <a>
	C       []Inline
	Dest    URL
	Title   *Title
	Form    int // 0 inline, 1 full ref, 2 collapsed, 3 shortcut
	Label   string
	LabelNL bool // full reference: the label may be spelled with a line break
}
type Image struct {
	C     []Inline
	Dest  URL
	Title *Title
}
type Auto struct {
	URL string // <scheme:...>
	Not bool   // the scheme is one character too short or too long (2-32 are allowed): plain text
}
type Mail struct{ Addr string } // <a@b.c>
type Raw struct{ S string }     // inline raw html
type Soft struct{}
type Hard struct{}
type NearMiss struct{ S string }        // block-start look-alike at the start of a paragraph continuation line indented >= 5 columns: plain text
type BS struct{}                        // a literal backslash right before a hard break written with spaces
type NotLink struct{ Src, HTML string } // link look-alike that lies just outside the rules: plain text (and raw HTML) with a fixed rendering

// URL: pieces with source spelling and resolved value
type URL struct{ P []Piece }
type Piece struct{ Src, Val string }
type Title struct{ P []Piece }

// ---------- block model ----------

type Block interface{}

type Para struct{ C []Inline }
type Heading struct {
	Level int
	C     []Inline
}
type HR struct{}
type ICode struct{ Lines []string }
type FCode struct {
	Info  []Piece
	Lines []string
}
type Quote struct {
	C []Block
	// Trail: the quote ends with a line that holds only the marker. Nothing is open inside the quote after it,
	// so the next line (without marker) cannot be a lazy continuation and another block may follow directly.
	Trail bool
}
type List struct {
	Ordered bool
	Start   int
	Tight   bool
	Items   [][]Block
}
type HTMLB struct{ Lines []string }

type Doc struct {
	Blocks []Block
	Defs   []Def // reference definitions required by Form!=0 links
}
type Def struct {
	Label string
	Dest  URL
	Title *Title
}

// ---------- expected HTML (spec reference renderer conventions, HTML5 void tags) ----------

func esc(s string) string {
	// (U+0000 is replaced by U+FFFD wherever it is written: CommonMark 2.3, insecure characters)
	r := strings.NewReplacer("&", "&amp;", "<", "&lt;", ">", "&gt;", "\"", "&quot;", "\x00", "\ufffd")
	return r.Replace(s)
}

const urlSafe = "abcdefghijklmnopqrstuvwxyzABCDEFGHIJKLMNOPQRSTUVWXYZ0123456789;/?:@&=+$,-_.!~*'()#%"

func urlEsc(s string) string {
	var sb strings.Builder
	for i := 0; i < len(s); i++ {
		c := s[i]
		if c == '%' {
			if i+2 < len(s) && isHex(s[i+1]) && isHex(s[i+2]) {
				sb.WriteByte(c)
			} else {
				sb.WriteString("%25")
			}
		} else if strings.IndexByte(urlSafe, c) >= 0 {
			sb.WriteByte(c)
		} else {
			fmt.Fprintf(&sb, "%%%02X", c)
		}
	}
	return sb.String()
}

func isHex(c byte) bool {
	return c >= '0' && c <= '9' || c >= 'a' && c <= 'f' || c >= 'A' && c <= 'F'
}

func (u URL) val() string {
	var sb strings.Builder
	for _, p := range u.P {
		sb.WriteString(p.Val)
	}
	return sb.String()
}
func (t *Title) val() string {
	var sb strings.Builder
	for _, p := range t.P {
		sb.WriteString(p.Val)
	}
	return sb.String()
}

func plain(in []Inline) string {
	var sb strings.Builder
	for _, x := range in {
		switch v := x.(type) {
		case Text:
			sb.WriteString(v.S)
		case Esc:
			sb.WriteByte(v.C)
		case Ent:
			sb.WriteString(v.Exp)
		case Emph:
			sb.WriteString(plain(v.C))
		case Strong:
			sb.WriteString(plain(v.C))
		case Code:
			sb.WriteString(strings.ReplaceAll(v.S, "\n", " "))
		case Auto:
			if v.Not {
				sb.WriteString("<" + v.URL + ">")
			} else {
				sb.WriteString(v.URL)
			}
		case Mail:
			sb.WriteString(v.Addr)
		case Link:
			sb.WriteString(plain(v.C))
		case Image:
			sb.WriteString(plain(v.C))
		case Soft:
			sb.WriteString("\n")
		case Hard:
			sb.WriteString("\n")
		case BS:
			sb.WriteString("\\")
		case NearMiss:
			sb.WriteString(v.S)
		}
	}
	return sb.String()
}

func codeContent(s string) string {
	s = strings.ReplaceAll(s, "\n", " ")
	if len(s) >= 2 && s[0] == ' ' && s[len(s)-1] == ' ' && strings.TrimSpace(s) != "" {
		s = s[1 : len(s)-1]
	}
	return s
}

func renderInl(in []Inline) string {
	var sb strings.Builder
	for _, x := range in {
		switch v := x.(type) {
		case Text:
			sb.WriteString(esc(v.S))
		case Esc:
			sb.WriteString(esc(string(v.C)))
		case Ent:
			sb.WriteString(esc(v.Exp))
		case Emph:
			sb.WriteString("<em>" + renderInl(v.C) + "</em>")
		case Strong:
			sb.WriteString("<strong>" + renderInl(v.C) + "</strong>")
		case Code:
			sb.WriteString("<code>" + esc(strings.ReplaceAll(v.S, "\n", " ")) + "</code>") // a line ending inside a code span reads as a space
		case Link:
			sb.WriteString(`<a href="` + esc(urlEsc(v.Dest.val())) + `"`)
			if v.Title != nil {
				sb.WriteString(` title="` + esc(v.Title.val()) + `"`)
			}
			sb.WriteString(">" + renderInl(v.C) + "</a>")
		case Image:
			sb.WriteString(`<img src="` + esc(urlEsc(v.Dest.val())) + `" alt="` + esc(plain(v.C)) + `"`)
			if v.Title != nil {
				sb.WriteString(` title="` + esc(v.Title.val()) + `"`)
			}
			sb.WriteString(">")
		case Auto:
			if v.Not {
				sb.WriteString(esc("<" + v.URL + ">"))
			} else {
				sb.WriteString(`<a href="` + esc(urlEsc(v.URL)) + `">` + esc(v.URL) + "</a>")
			}
		case Mail:
			sb.WriteString(`<a href="mailto:` + esc(urlEsc(v.Addr)) + `">` + esc(v.Addr) + "</a>")
		case Raw:
			sb.WriteString(v.S)
		case NotLink:
			sb.WriteString(v.HTML)
		case Soft:
			sb.WriteString("\n")
		case Hard:
			sb.WriteString("<br>\n")
		case BS:
			sb.WriteString("\\")
		case NearMiss:
			sb.WriteString(esc(v.S))
		}
	}
	return sb.String()
}

func renderBlocks(bs []Block, tight bool) string {
	var sb strings.Builder
	for _, b := range bs {
		switch v := b.(type) {
		case Para:
			if tight {
				sb.WriteString(renderInl(v.C) + "\n")
			} else {
				sb.WriteString("<p>" + renderInl(v.C) + "</p>\n")
			}
		case Heading:
			fmt.Fprintf(&sb, "<h%d>%s</h%d>\n", v.Level, renderInl(v.C), v.Level)
		case HR:
			sb.WriteString("<hr>\n")
		case ICode:
			sb.WriteString("<pre><code>" + esc(strings.Join(v.Lines, "\n")+"\n") + "</code></pre>\n")
		case FCode:
			sb.WriteString("<pre><code")
			if len(v.Info) > 0 {
				info := (&Title{v.Info}).val()
				lang := strings.Fields(info)[0]
				sb.WriteString(` class="language-` + esc(lang) + `"`)
			}
			sb.WriteString(">")
			if len(v.Lines) > 0 {
				sb.WriteString(esc(strings.Join(v.Lines, "\n") + "\n"))
			}
			sb.WriteString("</code></pre>\n")
		case Quote:
			sb.WriteString("<blockquote>\n" + renderBlocks(v.C, false) + "</blockquote>\n")
		case List:
			tag := "ul"
			if v.Ordered {
				tag = "ol"
			}
			sb.WriteString("<" + tag)
			if v.Ordered && v.Start != 1 {
				fmt.Fprintf(&sb, ` start="%d"`, v.Start)
			}
			sb.WriteString(">\n")
			for _, it := range v.Items {
				sb.WriteString("<li>" + renderBlocks(it, v.Tight) + "</li>\n")
			}
			sb.WriteString("</" + tag + ">\n")
		case HTMLB:
			sb.WriteString(strings.Join(v.Lines, "\n") + "\n")
		}
	}
	return sb.String()
}

var _ = html.EscapeString
