package c02

import (
	"regexp"
	"strings"
	"testing"

	"github.com/yuin/goldmark/ast"
	"github.com/yuin/goldmark/text"
	"pgregory.net/rapid"

	"verif/gen"
	"verif/kit"
)

// Reference reading of the seven HTML block start conditions (CommonMark 0.31.2, section 4.6) for one line, and a
// generator of start-line look-alikes. The oracle only decides *whether* the line starts an HTML block (at the
// beginning of a document and directly after a paragraph line); what the block contains is the business of the
// constructed documents.

var cond1Names = map[string]bool{"pre": true, "script": true, "style": true, "textarea": true}

var cond6Names = func() map[string]bool {
	m := map[string]bool{}
	for _, n := range strings.Fields("address article aside base basefont blockquote body caption center col colgroup dd details dialog dir div dl dt fieldset figcaption figure footer form frame frameset h1 h2 h3 h4 h5 h6 head header hr html iframe legend li link main menu menuitem nav noframes ol optgroup option p param search section summary table tbody td tfoot th thead title tr track ul") {
		m[n] = true
	}
	return m
}()

var (
	reOpenTagLine  = regexp.MustCompile(`^<([A-Za-z][A-Za-z0-9-]*)(?:[ \t]+[A-Za-z_:][A-Za-z0-9_.:-]*(?:[ \t]*=[ \t]*(?:[^ \t\n"'=<>` + "`" + `]+|'[^'\n]*'|"[^"\n]*"))?)*[ \t]*/?>[ \t]*$`)
	reCloseTagLine = regexp.MustCompile(`^</([A-Za-z][A-Za-z0-9-]*)[ \t]*>[ \t]*$`)
	reTagName      = regexp.MustCompile(`^</?([A-Za-z][A-Za-z0-9-]*)`)
)

// htmlStartCondition returns the number of the start condition the line (without its line ending, with up to three
// spaces of indentation already allowed for) satisfies, or 0.
func htmlStartCondition(line string) int {
	ind := len(line) - len(strings.TrimLeft(line, " "))
	if ind > 3 {
		return 0
	}
	l := line[ind:]
	lower := strings.ToLower(l)
	for n := range cond1Names {
		if strings.HasPrefix(lower, "<"+n) {
			rest := l[1+len(n):]
			if rest == "" || rest[0] == ' ' || rest[0] == '\t' || rest[0] == '>' {
				return 1
			}
		}
	}
	switch {
	case strings.HasPrefix(l, "<!--"):
		return 2
	case strings.HasPrefix(l, "<?"):
		return 3
	case strings.HasPrefix(l, "<![CDATA["):
		return 5
	case len(l) >= 3 && strings.HasPrefix(l, "<!") && (l[2]|0x20) >= 'a' && (l[2]|0x20) <= 'z':
		return 4
	}
	if m := reTagName.FindStringSubmatch(l); m != nil && cond6Names[strings.ToLower(m[1])] {
		rest := l[len(m[0]):]
		if rest == "" || rest[0] == ' ' || rest[0] == '\t' || rest[0] == '>' || strings.HasPrefix(rest, "/>") {
			return 6
		}
	}
	if m := reOpenTagLine.FindStringSubmatch(l); m != nil && !cond1Names[strings.ToLower(m[1])] {
		return 7
	}
	if m := reCloseTagLine.FindStringSubmatch(l); m != nil && !cond1Names[strings.ToLower(m[1])] {
		return 7
	}
	return 0
}

func htmlStartOracle(c *kit.Case) error {
	line := string(c.Bytes["line"])
	cond := htmlStartCondition(line)
	after := c.Ints["afterpara"] != 0
	src := line + "\n*e*\n"
	want := cond != 0
	if after {
		src = "para\n" + src
		want = cond >= 1 && cond <= 6 // condition 7 cannot interrupt a paragraph
	}
	doc := (gen.Config{Unsafe: true}).MD().Parser().Parse(text.NewReader([]byte(src)))
	got := false
	for n := doc.FirstChild(); n != nil; n = n.NextSibling() {
		if n.Kind() == ast.KindHTMLBlock {
			got = true
		}
	}
	if got != want {
		return kit.Violf("html-block-start", "line %q (start condition %d by the reference reading, after a paragraph line: %v): HTML block %v, expected %v", line, cond, after, got, want)
	}
	return nil
}

var (
	hsNames  = []string{"pre", "PRE", "script", "Style", "textarea", "div", "DIV", "h1", "h6", "h7", "p", "ul", "li", "hr", "table", "search", "section", "Section", "menuitem", "meta", "source", "divx", "sectionx", "prex", "a", "b", "x-y", "span", "img", "a1", "1a", "-a", ""}
	hsOpen   = []string{"<", "<", "<", "</", "</", "</ ", "< ", "<!", "<?", "<!--", "<![CDATA[", "<![cdata[", "<!-", "<!1"}
	hsAfter  = []string{"", ">", ">", " >", "\t>", "/>", " />", " x>", "\tclass=\"a\">", " a='b' c=d>", " a=\"b\"c>", " a=b`c>", " a = b >", " :a_.-b>", " 1a>", " a='b>", "\fx>", "\vx>", "x>", ">text", "> *a*", "></div>", " a=\"b", "  ", "\t", " x", "-", ":", "=", "/", "/ >", " / >", ">>", "> \t ", "/>\t"}
	hsIndent = []string{"", "", "", " ", "  ", "   ", "    "}
)

func TestHTMLStart(t *testing.T) {
	excluded := 0
	kit.Rapid(t, "html-start", 120000, 6000000, func(t *rapid.T) {
		open := rapid.SampledFrom(hsOpen).Draw(t, "open")
		name := rapid.SampledFrom(hsNames).Draw(t, "name")
		after := rapid.SampledFrom(hsAfter).Draw(t, "after")
		if cond1Names[strings.ToLower(name)] && open == "<" && strings.HasPrefix(after, "/") {
			// '<pre/>': the reference implementations read it as a block start, the letter of the specification does not
			excluded++
			kit.R.ClassN("excluded:cond1-name-followed-by-slash", 1)
			after = ">"
		}
		line := rapid.SampledFrom(hsIndent).Draw(t, "indent") + open + name + after
		if strings.TrimSpace(line) == "" {
			line = "<a>"
		}
		c := kit.NewCase("html-start", "unsafe").B("line", []byte(line)).I("afterpara", int64(rapid.IntRange(0, 1).Draw(t, "afterpara")))
		if kit.Check(t, c) {
			kit.R.Class("html-start", "html-start:condition-"+string(rune('0'+htmlStartCondition(line))))
			kit.R.NonTrivial(c)
		}
	})
}
