package c02

import (
	"strings"
	"testing"

	"github.com/yuin/goldmark/ast"
	"github.com/yuin/goldmark/text"
	"pgregory.net/rapid"

	"verif/gen"
	"verif/kit"
)

// Reference reading of "which block does this line start" (CommonMark 0.31.2, sections 4.1-4.6, 5.1, 5.2) for a single
// line at the beginning of a document and directly after a paragraph line, where only some blocks may interrupt.
// The oracle compares the kinds of the top-level blocks.

func columns(s string) (cols, bytes int) {
	for bytes < len(s) {
		switch s[bytes] {
		case ' ':
			cols++
		case '\t':
			cols += 4 - cols%4
		default:
			return
		}
		bytes++
	}
	return
}

func isThematic(l string) bool {
	t := strings.NewReplacer(" ", "", "\t", "").Replace(l)
	return len(t) >= 3 && (strings.Trim(t, "*") == "" || strings.Trim(t, "-") == "" || strings.Trim(t, "_") == "")
}

// listMarker returns the width of the marker (0 = none), whether content follows and the start number (-1 for bullets).
func listMarker(l string) (w int, content bool, start int) {
	start = -1
	i := 0
	if l != "" && strings.IndexByte("-+*", l[0]) >= 0 {
		i = 1
	} else {
		for i < len(l) && i < 10 && l[i] >= '0' && l[i] <= '9' {
			i++
		}
		if i == 0 || i > 9 || i >= len(l) || (l[i] != '.' && l[i] != ')') {
			return 0, false, -1
		}
		start = 0
		for _, c := range l[:i] {
			start = start*10 + int(c-'0')
		}
		i++
	}
	if i < len(l) && l[i] != ' ' && l[i] != '\t' {
		return 0, false, -1
	}
	return i, strings.TrimSpace(l[i:]) != "", start
}

// blockStart classifies the line: "code", "hr", "atx", "fence", "quote", "html", "list", "setext" (only after a
// paragraph), or "" (paragraph text / continuation).
func blockStart(line string, afterPara bool) string {
	if strings.TrimSpace(line) == "" {
		return "blank"
	}
	cols, nb := columns(line)
	if cols >= 4 {
		if afterPara {
			return "" // an indented line cannot interrupt a paragraph
		}
		return "code"
	}
	l := line[nb:]
	if afterPara {
		t := strings.TrimRight(l, " \t")
		if t != "" && (strings.Trim(t, "=") == "" || strings.Trim(t, "-") == "") {
			return "setext"
		}
	}
	if isThematic(l) {
		return "hr"
	}
	if n := len(l) - len(strings.TrimLeft(l, "#")); n >= 1 && n <= 6 && (len(l) == n || l[n] == ' ' || l[n] == '\t') {
		return "atx"
	}
	for _, f := range []byte{'`', '~'} {
		if n := len(l) - len(strings.TrimLeft(l, string(f))); n >= 3 && (f == '~' || !strings.Contains(l[n:], "`")) {
			return "fence"
		}
	}
	if l[0] == '>' {
		return "quote"
	}
	if c := htmlStartCondition(l); c != 0 && !(afterPara && c == 7) {
		return "html"
	}
	if w, content, start := listMarker(l); w > 0 {
		if !afterPara || (content && (start == -1 || start == 1)) {
			return "list"
		}
	}
	return ""
}

var kindName = map[ast.NodeKind]string{ast.KindCodeBlock: "code", ast.KindThematicBreak: "hr", ast.KindHeading: "heading", ast.KindFencedCodeBlock: "fence",
	ast.KindBlockquote: "quote", ast.KindHTMLBlock: "html", ast.KindList: "list", ast.KindParagraph: "para"}

func blockStartOracle(c *kit.Case) error {
	line := string(c.Bytes["line"])
	after := c.Ints["afterpara"] != 0
	src := line + "\n"
	if after {
		src = "para\n" + src
	}
	var want []string
	switch b := blockStart(line, after); {
	case b == "blank" && !after:
		want = nil
	case b == "blank":
		want = []string{"para"}
	case b == "setext":
		want = []string{"heading"}
	case b == "atx" && after:
		want = []string{"para", "heading"}
	case b == "atx":
		want = []string{"heading"}
	case b == "" && after:
		want = []string{"para"}
	case b == "":
		want = []string{"para"}
	case after:
		want = []string{"para", b}
	default:
		want = []string{b}
	}
	doc := (gen.Config{Unsafe: true}).MD().Parser().Parse(text.NewReader([]byte(src)))
	var got []string
	for n := doc.FirstChild(); n != nil; n = n.NextSibling() {
		got = append(got, kindName[n.Kind()])
	}
	if strings.Join(got, ",") != strings.Join(want, ",") {
		return kit.Violf("block-start", "%q: top-level blocks %v, the reference reading says %v", src, got, want)
	}
	return nil
}

var bsToks = []string{"#", "##", "######", "#######", "-", "--", "---", "- - -", "-\t-\t-", "*", "**", "***", "* * *", "_", "___", "_ _ _", "=", "==", "===", "+", "1.", "1)", "2.", "0.", "01.", "123456789.", "1234567890.", "1", ">", ">>", "```", "``", "````", "~~~", "~~", "~~~~", "`", " ", " ", "\t", "a", "x y", "7", ".", ")", "<div>", "<a>", "\\"}

func TestBlockStart(t *testing.T) {
	kit.Rapid(t, "block-start", 150000, 8000000, func(t *rapid.T) {
		ind := rapid.SampledFrom([]string{"", "", "", " ", "  ", "   ", "    ", "\t", " \t", "  \t"}).Draw(t, "indent")
		idx := rapid.SliceOfN(rapid.IntRange(0, len(bsToks)-1), 1, 5).Draw(t, "toks")
		var sb strings.Builder
		sb.WriteString(ind)
		for _, i := range idx {
			sb.WriteString(bsToks[i])
		}
		line := sb.String()
		if strings.Contains(line, "[") {
			return
		}
		c := kit.NewCase("block-start", "unsafe").B("line", []byte(line)).I("afterpara", int64(rapid.IntRange(0, 1).Draw(t, "afterpara")))
		if kit.Check(t, c) {
			kit.R.Class("block-start", "block-start:"+blockStart(line, c.Ints["afterpara"] != 0))
			kit.R.NonTrivial(c)
		}
	})
}
