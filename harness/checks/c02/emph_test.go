package c02

import (
	"bytes"
	"fmt"
	"strings"
	"testing"
	"unicode"
	"unicode/utf8"

	"pgregory.net/rapid"

	"verif/gen"
	"verif/kit"
)

// Reference implementation of the CommonMark delimiter-run algorithm
// ("process emphasis", written after commonmark.js) for the sub-language
// {ASCII letters/digits, single spaces, runs of * and _, inert ASCII punctuation}
// on a single line.

const emphPunct = ".,!()-\"'+$:;=?/"

func subLanguage(s string) bool {
	if s == "" || s[0] == ' ' || s[len(s)-1] == ' ' || strings.Contains(s, "  ") {
		return false
	}
	for i := 0; i < len(s); {
		c := s[i]
		if c >= 0x80 {
			r, sz := utf8.DecodeRuneInString(s[i:])
			if !strings.ContainsRune(emphRunes, r) || i == 0 || i+sz == len(s) {
				return false
			}
			i += sz
			continue
		}
		switch {
		case c >= 'a' && c <= 'z', c >= 'A' && c <= 'Z', c >= '0' && c <= '9', c == ' ', c == '*', c == '_':
		case strings.IndexByte(emphPunct, c) >= 0:
		default:
			return false
		}
		i++
	}
	return true
}

// non-ASCII characters of the sub-language: Unicode white space in the sense of the specification (category Zs:
// U+00A0, U+3000), characters that are white space for Go's unicode.IsSpace but not for the specification (U+0085,
// U+2028, U+2029 - they are neither white space nor punctuation here), Unicode punctuation and symbols (P*, S*
// categories: inverted exclamation mark, guillemets, euro sign, plus-minus sign), letters
const emphRunes = "\u00a0\u3000\u0085\u2028\u2029\u00a1\u00ab\u00bb\u20ac\u00b1\u00e9\u8a9e"

// the two character classes of the flanking rules (CommonMark 0.31.2, section 6.2)
func isWSRune(r rune) bool {
	return r == ' ' || r == '\t' || r == '\n' || r == '\f' || r == '\r' || unicode.Is(unicode.Zs, r)
}
func isPunctRune(r rune) bool {
	if r < 0x80 {
		return isPunctByte(byte(r))
	}
	return unicode.IsPunct(r) || unicode.IsSymbol(r)
}

// blockish reports whether the single line would not be a plain paragraph.
func blockish(s string) bool {
	t := strings.ReplaceAll(s, " ", "")
	if len(t) >= 3 && (strings.Trim(t, "*") == "" || strings.Trim(t, "_") == "" || strings.Trim(t, "-") == "") {
		return true // thematic break
	}
	if strings.Trim(t, "=") == "" || strings.Trim(t, "-") == "" {
		return true
	}
	if len(s) >= 1 && (s[0] == '*' || s[0] == '-' || s[0] == '+') && (len(s) == 1 || s[1] == ' ') {
		return true // bullet
	}
	i := 0
	for i < len(s) && s[i] >= '0' && s[i] <= '9' {
		i++
	}
	if i > 0 && i < 10 && i < len(s) && (s[i] == '.' || s[i] == ')') && (i+1 == len(s) || s[i+1] == ' ') {
		return true // ordered list
	}
	return false
}

type enode struct {
	text     string // literal text or tag
	ch       byte   // delimiter char, 0 for text
	n, orig  int
	canOpen  bool
	canClose bool
	active   bool // still on the delimiter stack
}

func isPunctByte(c byte) bool {
	return c >= '!' && c <= '/' || c >= ':' && c <= '@' || c >= '[' && c <= '`' || c >= '{' && c <= '~'
}

func refEmphasis(s string) string {
	var nodes []*enode
	for i := 0; i < len(s); {
		c := s[i]
		if c == '*' || c == '_' {
			j := i
			for j < len(s) && s[j] == c {
				j++
			}
			before, after := ' ', ' '
			if i > 0 {
				before, _ = utf8.DecodeLastRuneInString(s[:i])
			}
			if j < len(s) {
				after, _ = utf8.DecodeRuneInString(s[j:])
			}
			bw, aw := isWSRune(before), isWSRune(after)
			bp, ap := isPunctRune(before), isPunctRune(after)
			left := !aw && (!ap || bw || bp)
			right := !bw && (!bp || aw || ap)
			n := &enode{ch: c, n: j - i, orig: j - i, active: true}
			if c == '*' {
				n.canOpen, n.canClose = left, right
			} else {
				n.canOpen = left && (!right || bp)
				n.canClose = right && (!left || ap)
			}
			nodes = append(nodes, n)
			i = j
			continue
		}
		j := i
		for j < len(s) && s[j] != '*' && s[j] != '_' {
			j++
		}
		nodes = append(nodes, &enode{text: s[i:j]})
		i = j
	}
	// process emphasis
	type key struct {
		ch byte
		k  int
	}
	bottom := map[key]int{} // index into nodes: do not look at or below
	for k := range bottom {
		delete(bottom, k)
	}
	getBottom := func(k key) int {
		if v, ok := bottom[k]; ok {
			return v
		}
		return -1
	}
	cur := 0
	for cur < len(nodes) {
		cl := nodes[cur]
		if cl.ch == 0 || !cl.active || !cl.canClose {
			cur++
			continue
		}
		k := key{cl.ch, cl.orig % 3}
		if cl.canOpen {
			k.k += 3
		}
		found := -1
		for o := cur - 1; o > getBottom(k) && o >= 0; o-- {
			op := nodes[o]
			if op.ch != cl.ch || !op.active || !op.canOpen {
				continue
			}
			odd := (cl.canOpen || op.canClose) && cl.orig%3 != 0 && (op.orig+cl.orig)%3 == 0
			if !odd {
				found = o
				break
			}
		}
		if found < 0 {
			bottom[k] = cur - 1
			if !cl.canOpen {
				cl.active = false
			}
			cur++
			continue
		}
		op := nodes[found]
		use := 1
		tag := "em"
		if cl.n >= 2 && op.n >= 2 {
			use, tag = 2, "strong"
		}
		op.n -= use
		cl.n -= use
		// delimiters between opener and closer leave the stack
		for x := found + 1; x < cur; x++ {
			if nodes[x].ch != 0 {
				nodes[x].active = false
			}
		}
		// insert tags: after the opener node, before the closer node
		open := &enode{text: "<" + tag + ">"}
		clos := &enode{text: "</" + tag + ">"}
		nn := append([]*enode{}, nodes[:found+1]...)
		nn = append(nn, open)
		nn = append(nn, nodes[found+1:cur]...)
		nn = append(nn, clos)
		nn = append(nn, nodes[cur:]...)
		// indices shift by one for everything after found, by two after cur
		for kk, v := range bottom {
			if v > found {
				bottom[kk] = v + 1
			}
		}
		nodes = nn
		cur += 2 // position of the closer in the new slice
		if op.n == 0 {
			op.active = false
		}
		if cl.n == 0 {
			cl.active = false
			cur++
		}
	}
	var sb strings.Builder
	esc := strings.NewReplacer("&", "&amp;", "<", "&lt;", ">", "&gt;", "\"", "&quot;")
	for _, n := range nodes {
		if n.ch != 0 {
			sb.WriteString(strings.Repeat(string(n.ch), n.n))
		} else if strings.HasPrefix(n.text, "<") {
			sb.WriteString(n.text)
		} else {
			sb.WriteString(esc.Replace(n.text))
		}
	}
	return "<p>" + sb.String() + "</p>\n"
}

var lastRuns int

func emphasisOracle(c *kit.Case) error {
	src := string(c.Bytes["src"])
	if !subLanguage(src) || blockish(src) {
		return nil
	}
	want := refEmphasis(src)
	var b bytes.Buffer
	if err := (gen.Config{Unsafe: true}).MD().Convert([]byte(src), &b); err != nil {
		return kit.Violf("convert-error", "%v", err)
	}
	lastRuns = strings.Count(strings.NewReplacer("**", "*", "__", "_").Replace(src), "*") + strings.Count(src, "_")
	if b.String() != want {
		return kit.Violf("emphasis-differs", "delimiter soup %q\n got  %q\n want %q (reference delimiter algorithm)", src, b.String(), want)
	}
	return nil
}

// TestSelfEmphasisReference validates the reference implementation on the
// spec's own emphasis examples that lie in the sub-language.
func TestSelfEmphasisReference(t *testing.T) {
	n := 0
	for _, e := range gen.Spec() {
		if e.Section != "Emphasis and strong emphasis" {
			continue
		}
		md := strings.TrimSuffix(e.Markdown, "\n")
		if !subLanguage(md) || blockish(md) {
			continue
		}
		n++
		if got := refEmphasis(md); got != e.HTML {
			fmt.Printf("HARNESS-ERROR C02 reference emphasis algorithm disagrees with spec example %d: %q -> %q, spec %q\n", e.Example, md, got, e.HTML)
			t.Fail()
		}
	}
	if n < 60 {
		fmt.Printf("HARNESS-ERROR C02 only %d spec emphasis examples lie in the sub-language\n", n)
		t.Fail()
	}
	kit.R.Note("emphasis_reference_validated_on_spec_examples", n)
}

// Multi-line variant: some single spaces of a sub-language string become line breaks (soft breaks: the reference
// treats a line ending as whitespace, CommonMark 6.2) and the paragraph is put into a container whose continuation
// lines carry an equivalent spelling of the container prefix: "> ", a bare ">", a lazy continuation line, the
// content column of a list item, nested quotes. The prefix is not part of the paragraph, so the beginning of a
// line is preceded by the line ending whatever the prefix looks like.
var emphWraps = []struct {
	name         string
	first, cont  string
	open, closeT string
}{
	{"none", "", "", "", ""},
	{"quote", "> ", "> ", "<blockquote>\n", "</blockquote>\n"},
	{"quote-bare", ">", ">", "<blockquote>\n", "</blockquote>\n"},
	{"quote-lazy", "> ", "", "<blockquote>\n", "</blockquote>\n"},
	{"quote-mixed", "> ", ">", "<blockquote>\n", "</blockquote>\n"},
	{"item", "- ", "  ", "<ul>\n<li>", "</li>\n</ul>\n"},
	{"item-wide", "1.  ", "    ", "<ol>\n<li>", "</li>\n</ol>\n"},
	{"item-lazy", "+ ", "", "<ul>\n<li>", "</li>\n</ul>\n"},
	{"quote-quote", "> > ", ">>", "<blockquote>\n<blockquote>\n", "</blockquote>\n</blockquote>\n"},
	{"quote-item", "> - ", ">   ", "<blockquote>\n<ul>\n<li>", "</li>\n</ul>\n</blockquote>\n"},
	{"indent3", "   ", "   ", "", ""},
}

func emphasisLinesOracle(c *kit.Case) error {
	txt := string(c.Bytes["text"])
	w := int(c.Ints["wrap"])
	if w < 0 || w >= len(emphWraps) {
		return nil
	}
	lines := strings.Split(txt, "\n")
	for _, l := range lines {
		if !subLanguage(l) || blockish(l) {
			return nil
		}
	}
	wr := emphWraps[w]
	inner := refEmphasis(txt)
	if strings.HasPrefix(wr.name, "item") || wr.name == "quote-item" { // a tight item shows its only paragraph without <p>
		inner = strings.TrimSuffix(strings.TrimPrefix(inner, "<p>"), "</p>\n")
	}
	want := wr.open + inner + wr.closeT
	var src strings.Builder
	for i, l := range lines {
		if i == 0 {
			src.WriteString(wr.first)
		} else {
			src.WriteString(wr.cont)
		}
		src.WriteString(l)
		src.WriteByte('\n')
	}
	var b bytes.Buffer
	if err := (gen.Config{Unsafe: true}).MD().Convert([]byte(src.String()), &b); err != nil {
		return kit.Violf("convert-error", "%v", err)
	}
	lastRuns = strings.Count(strings.NewReplacer("**", "*", "__", "_").Replace(txt), "*") + strings.Count(txt, "_")
	if b.String() != want {
		return kit.Violf("emphasis-lines-differ", "delimiter soup over %d lines in container spelling %s: %q\n got  %q\n want %q (reference delimiter algorithm; a line ending is whitespace)", len(lines), wr.name, src.String(), b.String(), want)
	}
	return nil
}

func TestEmphasisLines(t *testing.T) {
	kit.Rapid(t, "emphasis-lines", 200000, 12000000, func(t *rapid.T) {
		nl := rapid.IntRange(2, 4).Draw(t, "nlines")
		var lines []string
		for len(lines) < nl {
			idx := rapid.SliceOfN(rapid.IntRange(0, len(emphToks)-1), 1, 7).Draw(t, "toks")
			var sb strings.Builder
			for _, i := range idx {
				sb.WriteString(emphToks[i])
			}
			s := strings.TrimSpace(sb.String())
			for strings.Contains(s, "  ") {
				s = strings.ReplaceAll(s, "  ", " ")
			}
			if s == "" {
				s = "a"
			}
			if blockish(s) {
				s = "a" + s
			}
			if s[0] >= 0x80 {
				s = "a" + s
			}
			if s[len(s)-1] >= 0x80 {
				s += "a"
			}
			lines = append(lines, s)
		}
		w := rapid.IntRange(0, len(emphWraps)-1).Draw(t, "wrap")
		c := kit.NewCase("emphasis-lines", "unsafe").B("text", []byte(strings.Join(lines, "\n"))).I("wrap", int64(w))
		lastRuns = 0
		if kit.Check(t, c) {
			kit.R.Class("emphasis-lines", "emphasis-lines:"+emphWraps[w].name)
			if lastRuns >= 2 {
				kit.R.NonTrivial(c)
			}
		}
	})
}

var emphToks = []string{"\u00a0", "\u3000", "\u0085", "\u2028", "\u2029", "\u00a1", "\u00ab", "\u00bb", "\u20ac", "\u00b1", "\u00e9", "\u8a9e", "a", "b", "foo", "bar", "1", " ", " ", "*", "*", "**", "***", "****", "_", "_", "__", "___", ".", ",", "!", "(", ")", "-", "\"", "'", "+", "$", ":", "a*", "*a", "_a", "a_", "*_", "_*", "**_", "a**b", "a_b", "(*", "*)", "_(", ")_"}

func TestEmphasisSoup(t *testing.T) {
	kit.Rapid(t, "emphasis", 200000, 12000000, func(t *rapid.T) {
		idx := rapid.SliceOfN(rapid.IntRange(0, len(emphToks)-1), 1, 14).Draw(t, "toks")
		var sb strings.Builder
		for _, i := range idx {
			sb.WriteString(emphToks[i])
		}
		s := strings.TrimSpace(sb.String())
		for strings.Contains(s, "  ") {
			s = strings.ReplaceAll(s, "  ", " ")
		}
		if s == "" {
			s = "a"
		}
		if blockish(s) {
			s = "a" + s
		}
		if s[0] >= 0x80 {
			s = "a" + s
		}
		if s[len(s)-1] >= 0x80 {
			s += "a"
		}
		c := kit.NewCase("emphasis", "unsafe").B("src", []byte(s))
		lastRuns = 0
		if kit.Check(t, c) {
			kit.R.Class("emphasis-soup")
			if lastRuns >= 2 {
				kit.R.NonTrivial(c)
			}
		}
	})
}
