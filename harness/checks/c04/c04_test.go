// Package c04: safe mode never emits a script-capable or local-file URL.
package c04

import (
	"bytes"
	"fmt"
	"io"
	"strings"
	"testing"

	"github.com/yuin/goldmark/ast"
	"github.com/yuin/goldmark/text"
	xhtml "golang.org/x/net/html"
	"pgregory.net/rapid"

	"verif/gen"
	"verif/kit"
	"verif/oracle"
)

func TestMain(m *testing.M) {
	kit.Register("url", urlOracle)
	kit.Register("ast-url", astURLOracle)
	kit.Describe("case = (safe-mode configuration, document) where the document places a URL built by the attack grammar (dangerous scheme with per-letter case flips, backslash escapes, named/decimal/hex references, percent-encoding, leading/embedded whitespace and control characters) into a URL-bearing construct (inline/reference link and image, <> and bare destinations, autolink, nested image-in-link, inside tables/footnotes/headings/lists/quotes), optionally surrounded by soup; every href/src of the output, decoded by a browser-like tokenizer and normalised the way the WHATWG URL parser preprocesses input, must not be dangerous; plus an AST-level tier: Link / Image / AutoLink nodes built through the public constructors (destination, protocol and label from the same grammar) and rendered in safe mode; non-trivial = the same document rendered WithUnsafe does carry a dangerous href/src (so safe mode had something to neutralise); distinct by hash of (configuration, source)",
		"browser model = golang.org/x/net/html attribute decoding + WHATWG URL preprocessing (strip leading C0/space, drop TAB/LF/CR, ASCII lower-case)")
	kit.Main(m, "C04")
}

// hrefs extracts every href/src value as a browser decodes it.
func hrefs(out []byte) []string {
	var vals []string
	z := xhtml.NewTokenizer(bytes.NewReader(out))
	for {
		tt := z.Next()
		if tt == xhtml.ErrorToken {
			if z.Err() != io.EOF {
				vals = append(vals, "")
			}
			return vals
		}
		if tt == xhtml.StartTagToken || tt == xhtml.SelfClosingTagToken {
			for _, a := range z.Token().Attr {
				if a.Key == "href" || a.Key == "src" {
					vals = append(vals, a.Val)
				}
			}
		}
	}
}

func dangerousIn(out []byte) (string, bool) {
	for _, v := range hrefs(out) {
		if oracle.DangerousURL(v) {
			return v, true
		}
	}
	return "", false
}

var lastUnsafeDangerous bool

func urlOracle(c *kit.Case) error {
	cfg := gen.ParseConfig(c.Config)
	cfg.Unsafe = false
	src := c.Bytes["src"]
	var buf bytes.Buffer
	if prev, ok := c.Bytes["prev"]; ok {
		// the caller recycles one source buffer (bytes.Buffer.Reset, a pool): an earlier document was converted
		// from the same backing array by the same instance, then the array was overwritten with this document
		shared := make([]byte, len(prev)+len(src))
		copy(shared, prev)
		var sink bytes.Buffer
		_ = cfg.MD().Convert(shared[:len(prev)], &sink)
		copy(shared, src)
		src = shared[:len(src)]
	}
	if err := cfg.MD().Convert(src, &buf); err != nil {
		return kit.Violf("convert-error", "%v", err)
	}
	if v, bad := dangerousIn(buf.Bytes()); bad {
		return kit.Violf("dangerous-url", "href/src %q (normalised %q) in safe-mode output %q", v, oracle.NormalizeURL(v), buf.Bytes())
	}
	// strict view as well, when the output is strictly well-formed
	if root, _, err := oracle.ParseStrict(buf.Bytes()); err == nil {
		for _, e := range root.All() {
			for _, a := range e.Attrs {
				if (a.Name == "href" || a.Name == "src") && oracle.DangerousURL(a.Val) {
					return kit.Violf("dangerous-url", "%s=%q (strict decoding) in safe-mode output %q", a.Name, a.Val, buf.Bytes())
				}
			}
		}
	}
	// generator health / non-triviality: what does unsafe mode emit?
	ucfg := cfg
	ucfg.Unsafe = true
	var ub bytes.Buffer
	_ = ucfg.MD().Convert(src, &ub)
	_, lastUnsafeDangerous = dangerousIn(ub.Bytes())
	return nil
}

// astURLOracle: the tree is built through the public ast constructors (as a custom inline parser or an AST
// transformer would) and rendered in safe mode: whatever the node carries, no href/src may be dangerous.
func astURLOracle(c *kit.Case) error {
	cfg := gen.ParseConfig(c.Config)
	cfg.Unsafe = false
	source := c.Bytes["label"]
	doc := ast.NewDocument()
	para := ast.NewParagraph()
	doc.AppendChild(doc, para)
	txt := ast.NewTextSegment(text.NewSegment(0, len(source)))
	switch c.Strs["kind"] {
	case "link":
		l := ast.NewLink()
		l.Destination = c.Bytes["dest"]
		l.Title = c.Bytes["title"]
		l.AppendChild(l, txt)
		para.AppendChild(para, l)
	case "image":
		l := ast.NewLink()
		l.Destination = c.Bytes["dest"]
		l.AppendChild(l, txt)
		para.AppendChild(para, ast.NewImage(l))
	case "autolink", "autolink-email":
		typ := ast.AutoLinkURL
		if c.Strs["kind"] == "autolink-email" {
			typ = ast.AutoLinkEmail
		}
		a := ast.NewAutoLink(typ, txt)
		if p, ok := c.Bytes["proto"]; ok {
			a.Protocol = p
		}
		para.AppendChild(para, a)
	}
	var buf bytes.Buffer
	if err := cfg.MD().Renderer().Render(&buf, source, doc); err != nil {
		return kit.Violf("render-error", "%v", err)
	}
	if v, bad := dangerousIn(buf.Bytes()); bad {
		return kit.Violf("dangerous-url", "programmatic %s node: href/src %q (normalised %q) in safe-mode output %q", c.Strs["kind"], v, oracle.NormalizeURL(v), buf.Bytes())
	}
	return nil
}

var schemes = []string{"javascript:", "javascript:", "vbscript:", "file:", "data:", "data:text/html,", "data:text/html;base64,", "data:image/svg+xml,", "data:image/svg+xmlx;", "data:image/bmp;", "data:IMAGE/png,", "file:///", "javascript://"}
var benign = []string{"http:", "https://a.b/", "mailto:", "/rel", "data:image/png;base64,", "data:image/gif;", "data:image/svg+xml;utf8,", "java", "script:", "x-javascript:", "#", "?", ""}
var rests = []string{"alert(1)", "x", "//x", "/etc/passwd", "a.b", "%0aalert(1)", "", "void(0)", "a&amp;b", "1",
	// an allowed data:image marker, or a harmless scheme, later in the URL must not whitewash the scheme in front
	"alert(1)//data:image/png;", "x#data:image/svg+xml;", "?u=data:image/gif;base64,AA", "//https://ok.example/", "x;data:image/jpeg;", "%0Adata:image/webp;x", "//%0Aalert(1)", "//a b", "//[", "//h:port/"}

var named = map[byte][]string{':': {"&colon;"}, '(': {"&lpar;"}, ')': {"&rpar;"}, '/': {"&sol;"}, ',': {"&comma;"}, ';': {"&semi;"}, '+': {"&plus;"}}

func spell(t *rapid.T, ch byte, allowLiteralWS bool) string {
	k := rapid.IntRange(0, 22).Draw(t, "sp")
	switch {
	case k <= 9:
		return string(ch)
	case k == 10:
		if ch >= 'a' && ch <= 'z' {
			return string(ch - 32)
		}
		if ch >= 'A' && ch <= 'Z' {
			return string(ch + 32)
		}
		return string(ch)
	case k == 11:
		if ch < 'a' && ch > ' ' && !(ch >= '0' && ch <= '9') && !(ch >= 'A' && ch <= 'Z') {
			return "\\" + string(ch)
		}
		return string(ch)
	case k == 12:
		if n, ok := named[ch]; ok {
			return n[0]
		}
		return string(ch)
	case k == 13:
		return fmt.Sprintf("&#%d;", ch)
	case k == 14:
		return fmt.Sprintf("&#%0*d;", rapid.IntRange(3, 7).Draw(t, "lz"), ch)
	case k == 15:
		return fmt.Sprintf("&#x%x;", ch)
	case k == 16:
		return fmt.Sprintf("&#X%04X;", ch)
	case k == 17:
		return fmt.Sprintf("%%%02x", ch)
	case k == 20:
		return fmt.Sprintf("&amp;#%d;", ch) // doubly encoded: must stay text
	case k == 21:
		return fmt.Sprintf("&#38;#x%x;", ch)
	case k == 22:
		if n, ok := named[ch]; ok {
			return "&amp;" + n[0][1:]
		}
		return string(ch)
	default:
		return string(ch)
	}
}

var wsRefs = []string{"&amp;Tab;", "&amp;NewLine;", "&amp;#9;", "&#38;#10;", "&amp;#1;", "&#x26;Tab;", "\\&Tab;", "&amp;amp;Tab;", "&Tab;", "&NewLine;", "&#9;", "&#10;", "&#13;", "&#x9;", "&#xA;", "&#32;", "&#1;", "&#31;", "&#0;", "&nbsp;", "&#160;", "&#8203;", "&ZeroWidthSpace;", " ", "​", "\x01", "\x1f", "\x7f", "\\\t", "%09", "%0a", "%20", "\\ ",
	// bytes that are not valid UTF-8 (lone continuation / lead bytes, overlong, truncated sequences): an escaper that
	// drops or rewrites them after the danger test would glue the scheme back together
	"\x80", "\xbf", "\xff", "\xfe", "\xf8", "\xc3", "\xe3\x80", "\xf0\x9f", "\xc0\xaf", "\xed\xa0\x80", "%80", "%ff", "&#xD800;", "&#x110000;", "\ufeff", "\u00ad", "&shy;"}
var wsLiteral = []string{" ", "\t", "  "}

func buildURL(t *rapid.T, angle bool) (string, bool) {
	dang := rapid.IntRange(0, 9).Draw(t, "dang") != 0
	var scheme string
	if dang {
		scheme = rapid.SampledFrom(schemes).Draw(t, "scheme")
	} else {
		scheme = rapid.SampledFrom(benign).Draw(t, "benign")
	}
	var sb strings.Builder
	// leading junk
	nl := rapid.IntRange(0, 5).Draw(t, "nlead")
	if nl > 2 {
		nl = 0
	}
	for i := 0; i < nl; i++ {
		if angle && rapid.Bool().Draw(t, "litws") {
			sb.WriteString(rapid.SampledFrom(wsLiteral).Draw(t, "lws"))
		} else {
			sb.WriteString(rapid.SampledFrom(wsRefs).Draw(t, "lref"))
		}
	}
	fancy := rapid.IntRange(0, 3).Draw(t, "fancy") != 0
	// long spelling: every character of the scheme as a numeric reference with leading zeros (the scheme alone takes
	// 100+ source bytes: whatever looks only at the head of the raw destination sees no scheme at all)
	long := rapid.IntRange(0, 9).Draw(t, "longspelling") == 0
	for i := 0; i < len(scheme); i++ {
		if long {
			if rapid.Bool().Draw(t, "hexref") {
				sb.WriteString(fmt.Sprintf("&#x%0*x;", rapid.IntRange(2, 6).Draw(t, "lzx"), scheme[i]))
			} else {
				sb.WriteString(fmt.Sprintf("&#%0*d;", rapid.IntRange(3, 7).Draw(t, "lzd"), scheme[i]))
			}
		} else if fancy {
			sb.WriteString(spell(t, scheme[i], angle))
			if rapid.IntRange(0, 11).Draw(t, "emb") == 0 {
				if angle && rapid.Bool().Draw(t, "litws2") {
					sb.WriteString(rapid.SampledFrom(wsLiteral).Draw(t, "ews"))
				} else {
					sb.WriteString(rapid.SampledFrom(wsRefs).Draw(t, "eref"))
				}
			}
		} else {
			c := scheme[i]
			if rapid.IntRange(0, 3).Draw(t, "flip") == 0 && c >= 'a' && c <= 'z' {
				c -= 32
			}
			sb.WriteByte(c)
		}
	}
	sb.WriteString(rapid.SampledFrom(rests).Draw(t, "rest"))
	return sb.String(), dang
}

var constructs = []struct {
	tpl   string
	angle bool
}{
	{"[a](@)", false}, {"[a](@ \"t\")", false}, {"[a](<@>)", true}, {"[a](<@> 't')", true}, {"![a](@)", false}, {"![a](<@>)", true},
	{"[a][r]\n\n[r]: @\n", false}, {"[a][r]\n\n[r]: <@>\n", true}, {"[r][]\n\n[r]: @ 't'\n", false}, {"[r]\n\n[R]: @\n", false}, {"![a][r]\n\n[r]: @\n", false}, {"![r]\n\n[r]: <@>\n", true},
	{"[r]: @\n\n[r]", false}, {"[a][r]\n\n[r]:\n   @\n", false},
	{"<@>", false}, {"[![a](@)](@)", false}, {"[![a](<@>)](/ok)", true}, {"[a *b* `c`](@)", false}, {"[a](@)[b](@)", false},
	{"@", false}, {"www.a.bc/@", false}, {"http://a.b/@", false},
}

var wrappers = []string{"@\n", "@\n", "# @\n", "> @\n", "- @\n", "1. @\n", "|a|b|\n|-|-|\n|@|c|\n", "x[^1]\n\n[^1]: @\n", "t\n: @\n", "*@*\n", "**a @ b**\n", "- [ ] @\n", "~~@~~\n", "a\n@\n===\n", ">> - @\n"}

func document(t *rapid.T) []byte {
	c := rapid.SampledFrom(constructs).Draw(t, "construct")
	var inner strings.Builder
	for i := 0; i < len(c.tpl); i++ {
		if c.tpl[i] == '@' {
			u, _ := buildURL(t, c.angle)
			inner.WriteString(u)
		} else {
			inner.WriteByte(c.tpl[i])
		}
	}
	body := inner.String()
	defs := ""
	if i := strings.Index(body, "\n\n["); i >= 0 && strings.Contains(c.tpl, "]: ") && !strings.HasPrefix(c.tpl, "[r]: ") {
		defs = body[i+2:]
		body = body[:i]
	}
	w := rapid.SampledFrom(wrappers).Draw(t, "wrapper")
	doc := strings.Replace(w, "@", body, 1)
	if defs != "" {
		doc += "\n" + defs
	}
	if rapid.IntRange(0, 2).Draw(t, "soup") == 0 {
		pre := gen.Soup(t, gen.Any, 6, "pre")
		doc = string(pre) + "\n\n" + doc
	}
	if rapid.IntRange(0, 3).Draw(t, "post") == 0 {
		doc += "\n" + string(gen.Soup(t, gen.Any, 6, "postsoup"))
	}
	if rapid.IntRange(0, 7).Draw(t, "bytemut") == 0 {
		return gen.ByteMutate(t, gen.Any, []byte(doc), "bm")
	}
	return []byte(doc)
}

func run(t kit.TB, cfg gen.Config, src []byte, class string) {
	c := kit.NewCase("url", cfg.String()).B("src", src)
	lastUnsafeDangerous = false
	if kit.Check(t, c) {
		kit.R.Class("gen:" + class)
		if lastUnsafeDangerous {
			kit.R.NonTrivial(c)
			kit.R.Class("unsafe-mode-emits-dangerous-url")
		}
	}
}

func TestKnown(t *testing.T)  { kit.RunKnown(t) }
func TestReplay(t *testing.T) { kit.RunReplay(t) }

func TestURLAttack(t *testing.T) {
	kit.Rapid(t, "attack", 250000, 12000000, func(t *rapid.T) {
		cfg := gen.DrawConfig(t, gen.ConfigOpts{SafeOnly: true})
		run(t, cfg, document(t), "attack")
	})
}

// TestRecycledBuffer: two documents of the same shape converted one after the other from one backing array; the
// first carries harmless URLs of exactly the lengths of the dangerous ones in the second, so that anything the
// instance remembers by position, length or slice identity is stale in the most misleading way.
func TestRecycledBuffer(t *testing.T) {
	kit.Rapid(t, "recycle", 60000, 3000000, func(t *rapid.T) {
		cfg := gen.DrawConfig(t, gen.ConfigOpts{SafeOnly: true})
		c := rapid.SampledFrom(constructs).Draw(t, "construct")
		var d1, d2 strings.Builder
		for i := 0; i < len(c.tpl); i++ {
			if c.tpl[i] != '@' {
				d1.WriteByte(c.tpl[i])
				d2.WriteByte(c.tpl[i])
				continue
			}
			u, _ := buildURL(t, c.angle)
			d2.WriteString(u)
			harmless := "https://ok.example/" + strings.Repeat("p", len(u))
			if len(u) < 8 {
				harmless = "/" + strings.Repeat("q", len(u))
			}
			d1.WriteString(harmless[:len(u)])
		}
		w := rapid.SampledFrom(wrappers).Draw(t, "wrapper")
		doc1, doc2 := strings.Replace(w, "@", d1.String(), 1), strings.Replace(w, "@", d2.String(), 1)
		if rapid.Bool().Draw(t, "swap") { // the dangerous document first: a remembered verdict must not blank the harmless one either (C10's business), and must not survive
			doc1, doc2 = doc2, doc1
		}
		cs := kit.NewCase("url", cfg.String()).B("src", []byte(doc2)).B("prev", []byte(doc1))
		lastUnsafeDangerous = false
		if kit.Check(t, cs) {
			kit.R.Class("gen:recycled-buffer")
			if lastUnsafeDangerous {
				kit.R.NonTrivial(cs)
			}
		}
	})
}

func TestASTLevel(t *testing.T) {
	kit.Rapid(t, "ast", 60000, 3000000, func(t *rapid.T) {
		cfg := gen.DrawConfig(t, gen.ConfigOpts{SafeOnly: true})
		kind := rapid.SampledFrom([]string{"link", "image", "autolink", "autolink", "autolink-email"}).Draw(t, "kind")
		u, _ := buildURL(t, false)
		c := kit.NewCase("ast-url", cfg.String()).S("kind", kind)
		switch kind {
		case "link", "image":
			c.B("dest", []byte(u)).B("label", []byte("text")).B("title", []byte(rapid.SampledFrom([]string{"", "t", "\"q\""}).Draw(t, "title")))
		default:
			// URL() of an autolink is Protocol + "://" + label when a protocol is set, else the label
			if rapid.Bool().Draw(t, "withproto") {
				proto := rapid.SampledFrom([]string{"javascript", "JavaScript", "vbscript", "file", "data", "http", "java\tscript", " javascript", "javascript:alert(1)//"}).Draw(t, "proto")
				c.B("proto", []byte(proto)).B("label", []byte(rapid.SampledFrom(rests).Draw(t, "rest")))
			} else {
				c.B("label", []byte(u))
			}
		}
		if kit.Check(t, c) {
			kit.R.Class("gen:ast-" + kind)
			kit.R.NonTrivial(c)
		}
	})
}

func TestURLSoup(t *testing.T) {
	p := urlSoup
	kit.Rapid(t, "soup", 80000, 4000000, func(t *rapid.T) {
		cfg := gen.DrawConfig(t, gen.ConfigOpts{SafeOnly: true})
		run(t, cfg, gen.Soup(t, p, kit.Pick(30, 60), "s"), "soup")
	})
}

var urlSoup = &gen.Profile{Name: "urlsoup", NoHTML: true, Extra: []string{
	"javascript:", "JAVASCRIPT:", "java", "script:", "vbscript:", "file:", "data:", "data:text/html,", "&colon;", "&#58;", "&#x3a;", "&#0058;", "\\:", "&Tab;", "&NewLine;", "&#106;", "&#x6A;",
	"[a](", "](", ")", "<", ">", "![", "[r]: ", "[r]", "\n\n", "\n", " ", "\"", "(", "%3a", "%0a", "alert(1)", "//", "<javascript:x>", "<vbscript:x>", "<file:///x>", "<data:x>",
}}

// TestHealth: the generator must make unsafe mode emit a dangerous URL in a
// healthy share of cases, otherwise the safe-mode check is vacuous.
func TestHealth(t *testing.T) {
	total := kit.R.ClassCount("gen:attack")
	hit := kit.R.ClassCount("unsafe-mode-emits-dangerous-url")
	if total > 1000 && hit*100 < total*15 {
		fmt.Printf("HARNESS-ERROR C04 generator starved: only %d of %d attack documents make unsafe mode emit a dangerous URL\n", hit, total)
		t.Fail()
	}
}

func FuzzURL(f *testing.F) {
	for _, c := range constructs {
		for _, s := range schemes {
			f.Add(uint16(0), []byte(strings.ReplaceAll(c.tpl, "@", s+"x")))
			f.Add(uint16(1), []byte(strings.ReplaceAll(c.tpl, "@", strings.Replace(s, ":", "&colon;", 1)+"x")))
		}
	}
	f.Fuzz(func(t *testing.T, cfgBits uint16, src []byte) {
		if len(src) > 4096 {
			return
		}
		cfg := gen.ConfigFromBits(uint32(cfgBits))
		cfg.Unsafe = false
		run(t, cfg, src, "fuzz")
	})
}
