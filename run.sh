#!/bin/sh
# usage: run.sh <ID> <quick|thorough> | --replay <file> | build-all
export GOFLAGS=-mod=mod GOPROXY=off GOSUMDB=off GOTOOLCHAIN=local
cd /verif/harness || exit 2
exec go run ./cmd/verifrun "$@"
