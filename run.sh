#!/bin/sh
# usage: run.sh <ID> <quick|thorough> | --replay <file> | build-all
export GOFLAGS=-mod=mod GOPROXY=off GOSUMDB=off GOTOOLCHAIN=local
if [ "$1" = "--replay" ] && [ -n "$2" ]; then
  case "$2" in /*) f="$2";; *) f="$(pwd)/$2";; esac
  set -- --replay "$f"
fi
cd "${VERIF_DIR:-/verif}/harness" || exit 2
exec go run ./cmd/verifrun "$@"
